#!/bin/sh
# cold build of the harness against /repo's working tree, offline
cd "$(dirname "$0")/harness" || exit 2
export CARGO_NET_OFFLINE=true
cargo build --release --offline
