import json,sys
# usage: lines of python tuples in a list CASES
def emit(cases, out):
    with open(out,'w') as f:
        for d,q in cases:
            f.write(json.dumps(d, ensure_ascii=True)+"\tJ:"+json.dumps(q, ensure_ascii=True)+"\n")
