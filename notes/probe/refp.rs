use jsonpath_rust::JsonPath;
use jsonpath_rust::query::queryable::Queryable;
use serde_json::{json, Value};
fn main() {
    let cases: Vec<(Value, &str)> = vec![
        (json!({"a":{"b":[1,2]}}), "$['a']['b'][1]"),
        (json!({"a/b":1,"a":{"b":2}}), "$['a/b']"),
        (json!({"a~b":1}), "$['a~b']"),
        (json!({"a~0b":1, "a~b":2}), "$['a~0b']"),
        (json!({"a~1b":1, "a/b":2}), "$['a~1b']"),
        (json!({"":1}), "$['']"),
        (json!([7]), "$['0']"),
        (json!({"0":7}), "$[0]"),
        (json!([7]), "$[-1]"),
        (json!([7]), "$[1]"),
        (json!([7]), "$[0]"),
        (json!([7]), "$"),
        (json!({"a'b":1}), "$['a\\'b']"),
        (json!({"a\\b":1}), "$['a\\\\b']"),
        (json!({"a\nb":1}), "$['a\\nb']"),
        (json!({"a\"b":1}), "$['a\"b']"),
        (json!({"a b":1}), "$['a b']"),
        (json!({"☺":1}), "$['☺']"),
        (json!({"a":1}), "$[\"a\"]"),
        (json!({"a":1}), "$.a"),
        (json!({"a":[1,2]}), "$.a[*]"),
        (json!({"a":[1,2]}), "$..a"),
        (json!({"a":[1,2]}), "garbage"),
        (json!({"'a'":1,"a":2}), "$['\\'a\\'']"),
        (json!({"-":1}), "$['-']"),
        (json!([1,2]), "$['-']"),
        (json!([1,2]), "$['1']"),
        (json!([1,2]), "$[01]"),
    ];
    for (mut d, p) in cases {
        let r = d.reference(p).cloned();
        let before = d.clone();
        let m = d.reference_mut(p).map(|v| { *v = json!("W"); });
        println!("{:<28} {:<22} ref={:?} mut={} after={}", before.to_string(), p, r.map(|v| v.to_string()), m.is_some(), d);
    }
}
