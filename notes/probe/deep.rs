use jsonpath_rust::JsonPath;
use jsonpath_rust::parser::parse_json_path;
use serde_json::{json, Value};
fn main() {
    let a: Vec<String> = std::env::args().collect();
    let kind = a[1].as_str(); let n: usize = a[2].parse().unwrap();
    let doc = json!([[1]]);
    match kind {
        "paren" => { let q = format!("$[?{}@{}]", "(".repeat(n), ")".repeat(n)); println!("{:?}", parse_json_path(&q).is_ok()); }
        "not" => { let q = format!("$[?{}@{}]", "!(".repeat(n), ")".repeat(n)); println!("{:?}", doc.query(&q).map(|v| v.len())); }
        "filter" => { let q = format!("${}{}", "[?@".repeat(n), "]".repeat(n)); println!("{:?}", doc.query(&q).map(|v| v.len())); }
        "fn" => { let q = format!("$[?{}@{}==1]", "value(".repeat(n), ")".repeat(n)); println!("{:?}", doc.query(&q).map(|v| v.len())); }
        "long" => { let q = format!("${}", "[0]".repeat(n)); println!("{:?}", doc.query(&q).map(|v| v.len())); }
        "desc" => { let q = format!("${}", "..*".repeat(n)); let d = json!([[[[1,2],[3]],[4]],[5]]); println!("{:?}", d.query(&q).map(|v| v.len())); }
        "doc" => { let mut d = json!(1); for _ in 0..n { d = Value::Array(vec![d]); } println!("{:?}", d.query("$..*").map(|v| v.len())); std::mem::forget(d); }
        "docf" => { let mut d = json!(1); for _ in 0..n { d = Value::Array(vec![d]); } println!("{:?}", d.query("$..[?@[0]]").map(|v| v.len())); std::mem::forget(d); }
        _ => {}
    }
}
