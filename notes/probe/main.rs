use jsonpath_rust::JsonPath;
use jsonpath_rust::query::queryable::Queryable;
use serde_json::Value;
use std::io::BufRead;
fn main() {
    // each stdin line:  <json doc> \t <query>
    for line in std::io::stdin().lock().lines() {
        let line = line.unwrap();
        if line.trim().is_empty() { continue; }
        let (d, q) = line.split_once('\t').unwrap();
        let doc: Value = serde_json::from_str(d).unwrap();
        // query written with JSON-string escaping for convenience if starts with "
        let q: String = if q.starts_with("J:") { serde_json::from_str(&q[2..]).unwrap() } else { q.to_string() };
        let r = std::panic::catch_unwind(|| doc.query_with_path(&q));
        match r {
            Ok(Ok(v)) => {
                let s: Vec<String> = v.into_iter().map(|r| { let p = r.clone().path(); format!("{}={}", p, r.val()) }).collect();
                println!("{:<40} on {:<40} => OK {:?}", q, d, s);
            }
            Ok(Err(e)) => println!("{:<40} on {:<40} => ERR {}", q, d, e.to_string().lines().next().unwrap_or("")),
            Err(_) => println!("{:<40} on {:<40} => PANIC", q, d),
        }
    }
}
