#!/bin/sh
# usage: tools/snapshot.sh   — (re)creates an isolated copy of the machinery: /tmp/vsnap (this directory, harness
# pointed at /tmp/rsnap) and /tmp/rsnap (a detached worktree of /repo at HEAD), so that the long matrices
# (tools/seed_matrix.sh, tools/kill_matrix.sh) can run with VERIF_ROOT=/tmp/vsnap REPO_ROOT=/tmp/rsnap while
# /repo and /verif stay free.  Results are written inside /tmp/vsnap; copy RESULTS.md back by hand.
# Remove with: git -C /repo worktree remove --force /tmp/rsnap; rm -rf /tmp/vsnap
set -e
git -C /repo worktree remove --force /tmp/rsnap 2>/dev/null || true
git -C /repo worktree prune
git -C /repo worktree add --detach /tmp/rsnap HEAD >/dev/null
mkdir -p /tmp/vsnap
rsync -a --delete --exclude 'harness/fuzz/target' --exclude 'harness/target-po' --exclude 'harness/target' --exclude replays --exclude .git /verif/ /tmp/vsnap/
[ -d /tmp/vsnap/harness/target ] || rsync -a /verif/harness/target /tmp/vsnap/harness/
sed -i 's|path = "/repo"|path = "/tmp/rsnap"|' /tmp/vsnap/harness/Cargo.toml /tmp/vsnap/harness/sendsync/Cargo.toml
echo "snapshot ready: VERIF_ROOT=/tmp/vsnap REPO_ROOT=/tmp/rsnap"
