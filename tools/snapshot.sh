#!/bin/sh
# usage: tools/snapshot.sh [suffix]
# (Re)creates an isolated copy of the machinery: /tmp/vsnap<suffix> (this directory, its harness pointed at
# /tmp/rsnap<suffix>) and /tmp/rsnap<suffix> (a detached worktree of /repo at HEAD).  The long matrices
# (tools/seed_matrix.sh, tools/kill_matrix.sh) and tools/run_mutant.sh then run with
#   VERIF_ROOT=/tmp/vsnap<suffix> REPO_ROOT=/tmp/rsnap<suffix>
# while /repo and /verif stay untouched (a `vp run` job reads /repo itself).  Results are written inside the
# copy; copy RESULTS.md back by hand.  Build output of the copy is kept between calls.
# Remove with: git -C /repo worktree remove --force /tmp/rsnap<suffix>; rm -rf /tmp/vsnap<suffix>
set -e
S="$1"
git -C /repo worktree remove --force "/tmp/rsnap$S" 2>/dev/null || true
git -C /repo worktree prune
git -C /repo worktree add --detach "/tmp/rsnap$S" HEAD >/dev/null
mkdir -p "/tmp/vsnap$S"
rsync -a --delete --exclude 'harness/fuzz/target' --exclude 'harness/target-po' --exclude 'harness/target' --exclude replays --exclude .git /verif/ "/tmp/vsnap$S/"
[ -d "/tmp/vsnap$S/harness/target" ] || rsync -a /verif/harness/target "/tmp/vsnap$S/harness/"
sed -i "s|path = \"/repo\"|path = \"/tmp/rsnap$S\"|" "/tmp/vsnap$S/harness/Cargo.toml" "/tmp/vsnap$S/harness/sendsync/Cargo.toml"
echo "snapshot ready: VERIF_ROOT=/tmp/vsnap$S REPO_ROOT=/tmp/rsnap$S"
