#!/bin/sh
# usage: tools/resync.sh [suffix] — copies the current /verif sources into an existing snapshot made by
# tools/snapshot.sh (the scratch worktree /tmp/rsnap<suffix> and its local edits are left alone)
S="$1"
[ -d "/tmp/vsnap$S" ] || { echo "no snapshot /tmp/vsnap$S" >&2; exit 2; }
rsync -a --delete --exclude 'harness/fuzz/target' --exclude 'harness/target-po' --exclude 'harness/target' --exclude replays --exclude .git /verif/ "/tmp/vsnap$S/"
sed -i "s|path = \"/repo\"|path = \"/tmp/rsnap$S\"|" "/tmp/vsnap$S/harness/Cargo.toml" "/tmp/vsnap$S/harness/sendsync/Cargo.toml"
