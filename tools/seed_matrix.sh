#!/bin/sh
# runs every kept seeded change against the quick check of its own property and writes seeded/RESULTS.md
# VERIF_ROOT / REPO_ROOT (default /verif, /repo) let the matrix run in an isolated copy: see tools/snapshot.sh
cd "${VERIF_ROOT:-/verif}" || exit 2
out=seeded/RESULTS.md
echo "# Seeded changes against the quick check of their own property (tools/seed_matrix.sh)" > $out
echo >> $out
echo "| seed | check | exit | first report |" >> $out
echo "|---|---|---|---|" >> $out
for d in seeded/C*-s*; do
  n=$(basename $d)
  id=$(echo $n | cut -d- -f1)
  r=$(tools/run_mutant.sh $d/patch.diff $id 2>&1 | tail -1)
  code=$(echo "$r" | sed -n 's/.*exit=\([0-9]*\).*/\1/p')
  msg=$(echo "$r" | sed 's/.*violations=[0-9]* *//' | cut -c1-110 | tr '|' '/')
  echo "| $n | $id | $code | $msg |" >> $out
done
echo >> $out
echo "exit 1 = caught (VIOLATION reported)." >> $out
