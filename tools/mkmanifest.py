#!/usr/bin/env python3
"""Regenerates /verif/MANIFEST.json from the table below (checks that exist) and properties.jsonl."""
import json, os
here = os.path.dirname(os.path.dirname(os.path.abspath(__file__)))
props = [json.loads(l) for l in open(os.path.join(here, 'properties.jsonl'))]

# id -> (technique, level text, level note, design ref)
CHECKS = {
 'C01': ('property-based differential testing against a reference evaluator (proptest-driven choice sequences, pointer-identity locations), known-finding attribution by quirk model',
         'Random search: generated (document, query, spelling) triples are evaluated by the library through the public API and as a programmatic AST, and the multiset of selected locations (by address inside the caller\'s document) is compared with an independent RFC 9535 evaluator. Exploration only: it shows agreement on everything generated, within the stated size bounds.',
         'Trusted: the harness oracle (self-tested against the RFC example tables at every run), the generators\' size bounds (ordinary documents depth <= 4 and width <= 4-5, plus wide containers of 5-300 members (scalars, sometimes small containers among them), lists of up to 80 records (sometimes with holes), deep documents of 8-300 levels, flat arrays up to 70 000 in the large-flat box; <= 4 segments per query), serde_json.', 'DESIGN.md section 4 C01'),
 'C02': ('property-based differential testing against a reference evaluator: exact result sequence (order and multiplicity), breadth-first descendant order accepted as valid, known finding K1 attributed by quirk model',
         'Random search biased to what makes order observable (multi-selector segments, several input nodes, negative steps, descendants, duplicates); the ordered list of selected locations (by address) must equal the reference evaluator\'s. A second generator excludes the open finding K1 by construction so that most of the budget searches with the strict oracle only; query_only_path must list the same nodes in the same order; a non-Value type with shuffled insertion order must be visited in its own member order. Exploration only.',
         'Trusted: the harness oracle (self-tested on the RFC tables); serde_json sorted member order is the document order of a Value; size bounds as for C01.', 'DESIGN.md section 4 C02'),
 'C11': ('bounded-exhaustive enumeration plus property-based random cases against the RFC slice pseudo-code in 128-bit arithmetic',
         'Every slice (start,end in absent/-10..10, step in absent/-4..4) and index on arrays of length 0..8 is enumerated completely, boundary values (+-(2^53-1), +-2^31, +-len+-1 ...) are placed in every position, non-array targets are swept, arrays of 33 to 65 537 elements (300 000 in the thorough tier) are taken through extreme and ordinary bounds and steps, and random nested / large (<= 300) arrays are sampled; the ordered index sequence and the reported paths must equal the RFC pseudo-code. Exhaustive inside the stated boxes, exploration outside.',
         'Trusted: slice_indices() (transcription of RFC 9535 2.3.4.2.2, self-tested on the RFC examples); termination judged by a 40 s watchdog around each library call and by a supervising parent process (a selection that kills a fresh process on its own is a violation).', 'DESIGN.md section 4 C11'),
 'C03': ('property-based testing with an independent location oracle (pointer identity) and RFC 2.7 path normaliser; round-trip (re-query of every reported path) and injectivity checks; known findings K2/K3 attributed by quirk model',
         'Random documents with hostile member names and queries over every route; each reported (node, path) pair is compared with the normalized path of the location found by address, equal paths must mean equal nodes, and every reported path is run as a query and must return exactly that node with that path. Also `$..*` over every generated document, lists of records with optional members under one-test filters, wide flat containers, and wide arrays touched for the first time by 16 threads at once. Exploration only.',
         'Trusted: normalized_path() (self-tested on the RFC examples), the recogniser used to read reported paths back into the oracle, size bounds as for C01.', 'DESIGN.md section 4 C03'),
 'C04': ('bounded-exhaustive comparison table against a direct transcription of the RFC rules, algebraic laws asserted on the library\'s own answers, plus property-based metamorphic equal/unequal copies and adjacent doubles',
         'All ordered pairs of a 50-value universe (every JSON kind, colliding values, Nothing) x 6 operators x operand forms are evaluated through the public API and compared with the RFC 9535 2.3.5.2.2 rules; != / <= / >= / trichotomy laws are asserted on the library\'s answers independently of the oracle; random deep values are compared with respelled/reordered (equal) and minimally changed (unequal) copies; random numeric neighbours, integer neighbours beyond 2^53 and number literals beyond the f64 range. Exhaustive inside the table, exploration outside.',
         'Trusted: compare()/eq_json() of the harness (self-tested on the 28-row RFC table); document numbers are finite doubles, I-JSON integers and a curated set of integers beyond 2^53 / above i64::MAX on which exact and double comparison agree (an integer beyond 2^53 against a float is not judged).', 'DESIGN.md section 4 C04'),
 'C05': ('bounded-exhaustive and property-based truth-table testing: formulas over document-controlled atoms, one child per valuation, Boolean evaluation as oracle (cross-checked with the reference evaluator); generated nested filters for @/$ scoping',
         'Every formula with <= 3 connectives over 3 atoms (and random deeper ones over <= 4 atoms) is rendered with minimal and with redundant parentheses and run against a document that holds one child per valuation, so precedence, negation, existence of falsy values and nested-filter atoms are checked on whole truth tables, for children of arrays and of objects; random two/three-level filters make the inner/outer @ and $ distinguishable; several filter selectors in one bracketed selection. Exhaustive inside the formula box, exploration outside.',
         'Trusted: Boolean evaluation of the formula; atom encodings in harness/src/props/c05.rs; the reference evaluator for the scoping family.', 'DESIGN.md section 4 C05'),
 'C10': ('property-based differential testing against a reference evaluator with its own backtracking regular-expression matcher over generated pattern ASTs; exhaustive box for length(); known findings K4/K5 attributed by quirk model or input class',
         'length() is swept over every kind of argument x n; count()/value() get generated argument queries selecting 0, 1 or many nodes and their results are used inside comparisons, negations and conjunctions; match()/search() get generated pattern ASTs (alternation, anchors, classes, quantifiers, \\p{..}) with subjects derived from the pattern, delivered as literals and through document nodes, plus invalid and non-string patterns/subjects; metacharacters as literal characters; compared numbers in every spelling. The oracle never uses the regex crate. Exploration only (exhaustive inside the length box).',
         'Trusted: the harness matcher and pattern parser (harness/src/regexo.rs; render/parse round-trip checked on every case), the reference evaluator; dialect and alphabet restrictions stated in the evidence assumptions; a 400k-step budget on the naive matcher (exceeded cases are counted as not judged).', 'DESIGN.md section 4 C10'),
 'C06': ('grammar-based property testing: sentences derived from the RFC 9535 ABNF by two independent generators, rendered over all spelling freedoms, cross-checked by an independent recogniser; accept/no-Err oracle',
         'Random ASTs covering the whole grammar are rendered with random blanks at every S position, both quote styles, every escape form, dot/bracket notation, all number forms and nesting up to 32, and must be accepted by parse_json_path and evaluate without Err on three documents; the recogniser must agree that each sentence is valid (else the harness, not the library, is reported). Mutants that the recogniser still classifies valid are fed in too. Two enumerated boxes: nesting / chain length 33-900, and one long token or run (names in every notation, literals, patterns, fractions, exponents, blanks, selections, chains) of 255 to 100 000 characters (300 000 thorough). Exploration only outside the boxes.',
         'Trusted: validity by construction + the recogniser (self-tested on RFC examples). Bounds: function nesting <= 3, bracket nesting <= 32.', 'DESIGN.md section 4 C06'),
 'C07': ('mutation-based property testing against an independent RFC 9535 recogniser (differential accept/reject oracle): token-level and character-level near misses, AST-level ill-typed calls, a targeted bounded box, token soup',
         'Valid sentences are mutated by 1-3 token or character edits, ill-typed/mis-aritied function calls are built on the AST and embedded in valid queries, and a targeted box places every forbidden integer form, blank, string form and filter form into every position that takes one; whatever the recogniser classifies Invalid must be rejected by parse_json_path and by JsonPath::query. Strings the recogniser does not judge (extension function names, blanks inside singular-query brackets) are counted and skipped; an integer literal of a comparison outside the I-JSON range is judged invalid (the property lists out-of-range integers and is anchored in that check of the library). Exploration only (the targeted box is enumerated completely).',
         'Trusted: the recogniser (hand-written from RFC 9535 Appendix A, 2.1, 2.4; self-tested; cross-validated against the C06 generators on every run of C06).', 'DESIGN.md section 4 C07'),
 'C08': ('fuzz-style property testing in-process (catch_unwind, overflow checks, PEG call-budget meter, per-call watchdog) over generated valid / mutated / arbitrary inputs and extreme integers, plus scaling probes in isolated child processes; known findings K6/K7 attributed by input class + failure kind',
         'Every generated input runs through all seven public entry points; a panic, an abort, a PEG call budget overrun, a call that does not return within 40 s, disagreement between entry points about Ok/Err, or an Err from evaluating a successfully parsed query is a violation. Stack exhaustion and parse-work blow-up are probed in child processes at sizes 8..65536; regular expressions of every nesting depth 1..300 and of extreme sizes, parenthesised binary trees of conditions with && / || at every level (every depth 1..64, to 256) and comparisons of equal containers nested 1..128 deep are swept in-process (work that multiplies per level ends at the watchdog). Exploration only; absence of hangs cannot be established by this technique and is approximated by the budgets stated in the evidence.',
         'Trusted: pest::set_call_limit as a deterministic parse-work meter; 8 MiB stack as the reference environment for the probes; bulk inputs have nesting <= 40.', 'DESIGN.md section 4 C08'),
 'C09': ('model-based property testing: every node location of generated documents (pointer identity for reads, whole-document model comparison for writes), derived non-existent locations, and generated write histories against an in-memory model; known finding K3 attributed by model',
         'For every node of documents with JSON-Pointer-hostile and escape-needing member names, reference(normalized path) must return that node by address and a write through reference_mut must equal the model (replace the subtree, nothing else); locations that do not exist (index = len, a negative index below the start, numeric name on an array, index on an object, a/b and ~1 confusions, steps below scalars) must give None and leave the document unchanged; histories of up to 6 writes through the paths of one query are replayed against the model step by step. Exploration only.',
         'Trusted: normalized_path(), the replacement model, pointer identity.', 'DESIGN.md section 4 C09'),
 'C12': ('property-based testing of agreement and purity: entry points compared position by position, generated evaluation histories against a fresh-process reference, generated multi-thread schedules against the sequential result, compile-time Send/Sync assertion',
         'Random pairs run through query, query_only_path, query_with_path and js_path_process(parse(q)) (twice) and must agree by address and path with the document unchanged; histories of 8-40 evaluations over colliding documents and queries (also through clones of the parsed query, and from frames up to 12 MiB deeper on the stack) must equal, step by step, the same pair evaluated first in a fresh process; 2-16 threads share parsed queries and documents behind a barrier and must reproduce the sequential results; a separate crate asserts Send + Sync + Clone at compile time. Exploration only; thread interleavings are sampled by stress, not enumerated.',
         'Trusted: fresh process = no history. A data race that needs a rare interleaving can be missed (stated in the evidence).', 'DESIGN.md section 4 C12'),
 'C13': ('metamorphic property-based testing: one abstract query re-rendered in independently chosen equivalent spellings, results compared by node address; differences attributed through the reference evaluator to open findings only',
         'Each generated query is rendered in 4-6 further spellings (.name / [\'name\'] / ["name"], .* / [*], ?e / ?(e) / redundant or dropped parentheses, optional second slice colon, blanks from all four characters at every S position, integer / fraction / exponent spellings, separately: escape spellings) and all must select the same nodes in the same order on the same document. Exploration only.',
         'Trusted: the re-spelling transformations in harness/src/spell.rs preserve meaning under RFC 9535 (the C06 recogniser reads every rendering back to the same AST).', 'DESIGN.md section 4 C13'),
 'C14': ('property-based testing against a set-semantics reference with structural equality; complement laws asserted on the library\'s own answers',
         'Generated lists of arbitrary JSON values (nested, empty, duplicates), sub-multisets, near-subsets, non-arrays and missing arguments are fed to the five documented extension functions through every argument form (@.k, @, @[0], @[-1], literal; $.l, $.m.n, @.own, and non-singular queries selecting exactly one node or none); kept elements must equal the set-semantics oracle, in/nin and any_of/none_of must be complements where the arguments are well-formed, and no call may return Err. Exploration only.',
         'Trusted: oracle::extension() transcribes the property statement; numbers of one case are all integers (small ones and distinct integers beyond 2^53) or all floats.', 'DESIGN.md section 4 C14'),
 'C15': ('differential property-based testing across four Queryable implementations (serde_json::Value and three differently represented harness types, one of which strips exactly one pair of enclosing quotes in get), plus reference-evaluator comparison on shuffled member orders',
         'The whole query generator (selectors, filters, comparisons, RFC functions) runs on the same document viewed as Value, as V1 (insertion-ordered members, Int/Float variants answering only their own accessor, non-null Default) and as V2 (f64 numbers, sorted map, content-free Debug, as_i64 always None): paths and values must agree position by position; with shuffled member order the result must be the RFC nodelist in that view\'s order and object equality must not depend on member order; V3 (one pair of quotes stripped in get) on hostile names; large numbers and overflow literals compared through Value, V1 and V2. Exploration only.',
         'Trusted: the harness types implement the trait faithfully (get strips enclosing quotes greedily like the reference implementation, or exactly one pair in V3, where names ending with a quote are not judged).', 'DESIGN.md section 4 C15'),
}
NOT_YET = 'check under construction in this session (designed in DESIGN.md section 4); not yet registered'

m = {
 'version': 1,
 'setup_cmd': './setup.sh',
 'hooks': {
  'guard': 'none',
  'enable': 'no source hooks: the harness links /repo (path dependency) through its public API and rebuilds it on every check invocation',
  'baseline_off_cmd': 'cd /repo && cargo test --offline',
  'source_commits': [],
  'add_only': True,
 },
 'engines': [{'name': 'jpv', 'path': 'harness', 'serves_properties': sorted(CHECKS), 'kind_free_text': 'Rust harness: proptest-driven choice-sequence generators with own shrinker, reference evaluator, RFC recogniser, isolation worker; cargo-fuzz targets under harness/fuzz'}],
 'checks': [],
 'not_applicable': [],
 'notes': 'Known findings: KNOWN_FINDINGS.txt (open: lines are attributed by exact signature, fixed: lines are regression-tested strictly). Exit 2 of a check means the harness could not decide (build failure, self-test failure), never a violation.',
}
for p in props:
    i = p['id']
    if i in CHECKS:
        tech, text, note, ref = CHECKS[i]
        m['checks'].append({
         'property_id': i,
         'quick_cmd': './check %s --tier quick' % i,
         'thorough_cmd': './check %s --tier thorough' % i,
         'evidence_file': 'evidence/%s.json' % i,
         'replay_cmd_template': './check %s --replay {path}' % i,
         'engine': 'jpv',
         'level_claimed': {'category': 'exploration', 'text': text, 'design_ref': ref},
         'level_note': note,
         'technique': tech,
        })
    else:
        m['not_applicable'].append({'property_id': i, 'reason': NOT_YET})
json.dump(m, open(os.path.join(here, 'MANIFEST.json'), 'w'), indent=1)
print('checks:', [c['property_id'] for c in m['checks']])
