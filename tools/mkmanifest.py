#!/usr/bin/env python3
"""Regenerates /verif/MANIFEST.json from the table below (checks that exist) and properties.jsonl."""
import json, os
here = os.path.dirname(os.path.dirname(os.path.abspath(__file__)))
props = [json.loads(l) for l in open(os.path.join(here, 'properties.jsonl'))]

# id -> (technique, level text, level note, design ref)
CHECKS = {
 'C01': ('property-based differential testing against a reference evaluator (proptest-driven choice sequences, pointer-identity locations), known-finding attribution by quirk model',
         'Random search: generated (document, query, spelling) triples are evaluated by the library through the public API and as a programmatic AST, and the multiset of selected locations (by address inside the caller\'s document) is compared with an independent RFC 9535 evaluator. Exploration only: it shows agreement on everything generated, within the stated size bounds.',
         'Trusted: the harness oracle (self-tested against the RFC example tables at every run), the generators\' size bounds (depth <= 4, width <= 4, <= 4 segments), serde_json.', 'DESIGN.md section 4 C01'),
}
NOT_YET = 'check under construction in this session (designed in DESIGN.md section 4); not yet registered'

m = {
 'version': 1,
 'setup_cmd': './setup.sh',
 'hooks': {
  'guard': 'none',
  'enable': 'no source hooks: the harness links /repo (path dependency) through its public API and rebuilds it on every check invocation',
  'baseline_off_cmd': 'cd /repo && cargo test --offline',
  'source_commits': [],
  'add_only': True,
 },
 'engines': [{'name': 'jpv', 'path': 'harness', 'serves_properties': sorted(CHECKS), 'kind_free_text': 'Rust harness: proptest-driven choice-sequence generators with own shrinker, reference evaluator, RFC recogniser, isolation worker; cargo-fuzz targets under harness/fuzz'}],
 'checks': [],
 'not_applicable': [],
 'notes': 'Known findings: KNOWN_FINDINGS.txt (open: lines are attributed by exact signature, fixed: lines are regression-tested strictly). Exit 2 of a check means the harness could not decide (build failure, self-test failure), never a violation.',
}
for p in props:
    i = p['id']
    if i in CHECKS:
        tech, text, note, ref = CHECKS[i]
        m['checks'].append({
         'property_id': i,
         'quick_cmd': './check %s --tier quick' % i,
         'thorough_cmd': './check %s --tier thorough' % i,
         'evidence_file': 'evidence/%s.json' % i,
         'replay_cmd_template': './check %s --replay {path}' % i,
         'engine': 'jpv',
         'level_claimed': {'category': 'exploration', 'text': text, 'design_ref': ref},
         'level_note': note,
         'technique': tech,
        })
    else:
        m['not_applicable'].append({'property_id': i, 'reason': NOT_YET})
json.dump(m, open(os.path.join(here, 'MANIFEST.json'), 'w'), indent=1)
print('checks:', [c['property_id'] for c in m['checks']])
