#!/bin/sh
# runs every hand-made mutant against the quick check of the property named in its file name
# (cNN-*.patch -> CNN) and writes mutants/RESULTS.md
# VERIF_ROOT / REPO_ROOT (default /verif, /repo) let the matrix run in an isolated copy: see tools/snapshot.sh
cd "${VERIF_ROOT:-/verif}" || exit 2
out=mutants/RESULTS.md
echo "# Kill matrix of the hand-made mutants (tools/kill_matrix.sh, quick tier)" > $out
echo >> $out
echo "| mutant | check | exit | first report |" >> $out
echo "|---|---|---|---|" >> $out
for p in mutants/*.patch; do
  n=$(basename $p .patch)
  id=$(echo $n | cut -c1-3 | tr c C)
  r=$(tools/run_mutant.sh $p $id 2>&1 | tail -1)
  code=$(echo "$r" | sed -n 's/.*exit=\([0-9]*\).*/\1/p')
  msg=$(echo "$r" | sed 's/.*violations=[0-9]* *//' | cut -c1-110 | tr '|' '/')
  echo "| $n | $id | $code | $msg |" >> $out
done
echo >> $out
echo "exit 1 = killed (VIOLATION reported); exit 0 = survived; see DESIGN.md section 6 for the survivors (equivalent mutants)." >> $out
