#!/bin/sh
# usage: tools/run_mutant.sh <patch> <Cxx> [more check ids...]   (set TESTS=1 to run the repo's own suite on the mutant too)
# applies the patch to /repo, runs the quick checks, reverts /repo; prints one line per check
patch="$(realpath "$1")"; shift
REPO="${REPO_ROOT:-/repo}"; VERIF="${VERIF_ROOT:-/verif}"
cd "$REPO" || exit 2
if [ -n "$(git status --porcelain --untracked-files=no)" ]; then echo "$REPO is dirty, refusing" >&2; exit 2; fi
if ! git apply "$patch"; then echo "patch does not apply: $patch" >&2; exit 2; fi
trap 'git -C "$REPO" checkout -- . ' EXIT INT TERM
if [ -n "$TESTS" ]; then
  r=$(cargo test --offline 2>&1 | grep -E "^test result" | head -1)
  echo "  repo tests: $r"
fi
for id in "$@"; do
  out=$("$VERIF/check" "$id" --tier quick --no-evidence 2>&1); code=$?
  v=$(echo "$out" | grep -c "^VIOLATION")
  echo "$(basename "$patch" .patch) $id exit=$code violations=$v $(echo "$out" | grep -A1 "^VIOLATION" | grep -v "^VIOLATION" | head -1 | cut -c1-160)"
done
