#!/bin/sh
# usage: tools/confirm_seed.sh <Cxx> <N> [worktree dir, default /tmp/seed-Cxx]   — confirms seed N of /tmp/seed-Cxx in that scratch worktree:
#   demo passes on the clean tree; with the patch the 94 unit tests + 2 doctests pass and the demo fails.
id="$1"; n="$2"; d="${3:-/tmp/seed-$id}"; s="$d/SEED$n"
[ -f "$s/patch.diff" ] || { echo "$id seed$n: no patch"; exit 2; }
cd "$d" || exit 2
git checkout -- . >/dev/null 2>&1; rm -rf tests/demo_seed*.rs
mkdir -p tests; cp "$s/demo.rs" tests/demo_seed$n.rs
clean=$(cargo test --offline --test demo_seed$n 2>&1 | grep -E "^test result" | head -1)
if ! git apply "$s/patch.diff"; then echo "$id seed$n: patch does not apply"; rm -f tests/demo_seed$n.rs; exit 2; fi
out=$(cargo test --offline --no-fail-fast 2>&1)
unit=$(echo "$out" | grep -E "^test result" | sed -n 1p)
rest=$(echo "$out" | grep -E "^test result" | sed -n '2,$p' | tr '\n' ';')
git checkout -- . >/dev/null 2>&1; rm -f tests/demo_seed$n.rs; rmdir tests 2>/dev/null
echo "$id seed$n | clean demo: $clean | patched unit: $unit | patched others: $rest"
