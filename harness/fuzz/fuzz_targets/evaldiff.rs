#![no_main]
//! C01/C02/C03 differential with coverage guidance: the bytes are the choice sequence of the harness
//! generators (structure-aware), the checks are the ones the proptest tier runs.
use jpv::engine::Obs;
use jpv::gen::{gen_doc, gen_query, render_with_blanks, GenCfg};
use jpv::src::{bytes_to_choices, Src};
use libfuzzer_sys::fuzz_target;


fuzz_target!(|data: &[u8]| {
    if data.len() < 8 || data.len() > 600 {
        return;
    }
    let choices = bytes_to_choices(data);
    let mut src = Src::new(&choices);
    let mut cfg = GenCfg::plain();
    cfg.special_keys = src.chance(1, 4);
    cfg.free_escapes = cfg.special_keys;
    cfg.union_weight = 25;
    let doc = gen_doc(&mut src, &cfg).sorted();
    let q = gen_query(&mut src, &doc, &cfg);
    let blanks = src.chance(1, 3);
    let text = render_with_blanks(&mut src, &q, blanks);
    let mut obs = Obs::new();
    obs.counting = false;
    let mut results = vec![
        ("C01", jpv::props::c01::check(&q, &text, &doc, true, &mut obs)),
        ("C03", jpv::props::c03::check(&q, &text, &doc, &mut obs)),
    ];
    // C02's check attributes only the ordering finding K1: names that need escapes (K3 region) are
    // C01's and C03's business
    if !cfg.special_keys {
        results.push(("C02", jpv::props::c02::check(&q, &text, &doc, &mut obs)));
    }
    for (name, r) in results {
        if let Err(f) = r {
            if f.harness {
                continue;
            }
            panic!("{}: {} :: {}", name, f.msg, f.case);
        }
    }
});
