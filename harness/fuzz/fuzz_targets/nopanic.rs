#![no_main]
//! C08: bytes -> (query string, document); every public entry point must return Ok or Err.
//! A panic of the library is a crash of the target; Ok/Err consistency is asserted.
use jsonpath_rust::parser::parse_json_path;
use jsonpath_rust::query::js_path_process;
use jsonpath_rust::query::queryable::Queryable;
use jsonpath_rust::JsonPath;
use libfuzzer_sys::fuzz_target;
use serde_json::Value;
use std::sync::Once;

static INIT: Once = Once::new();

fuzz_target!(|data: &[u8]| {
    INIT.call_once(|| {
        pest::set_call_limit(std::num::NonZeroUsize::new(2_000_000));
    });
    if data.len() > 400 {
        return;
    }
    // split at the first 0xFF byte (never part of UTF-8): query | document
    let (qb, db) = match data.iter().position(|b| *b == 0xFF) {
        Some(i) => (&data[..i], &data[i + 1..]),
        None => (data, &b"[1,[2,{\"a\":[3,null]}],\"x\"]"[..]),
    };
    let q = match std::str::from_utf8(qb) {
        Ok(s) => s,
        Err(_) => return,
    };
    // nesting beyond 200 belongs to the scaling probes (known finding K6)
    if q.bytes().filter(|b| *b == b'(' || *b == b'[').count() > 200 {
        return;
    }
    let doc: Value = serde_json::from_slice(db).unwrap_or(Value::Null);
    let parsed = parse_json_path(q);
    let call_limit = matches!(&parsed, Err(e) if e.to_string().contains("call limit reached"));
    let r1 = doc.query(q).is_ok();
    let r2 = doc.query_with_path(q).is_ok();
    let r3 = doc.query_only_path(q).is_ok();
    if !call_limit {
        assert!(r1 == parsed.is_ok() && r2 == parsed.is_ok() && r3 == parsed.is_ok(), "C08: entry points disagree about Ok/Err for {:?}", q);
    }
    if let Ok(ast) = &parsed {
        assert!(js_path_process(ast, &doc).is_ok(), "C08: evaluating a parsed query returned Err: {:?}", q);
    }
    let _ = doc.reference(q);
    let mut d2 = doc.clone();
    let _ = d2.reference_mut(q);
});
