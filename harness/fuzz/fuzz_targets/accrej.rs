#![no_main]
//! C06/C07 differential: bytes -> string; the independent recogniser decides valid / invalid, the
//! library must accept / reject accordingly.  Coverage-guided (libFuzzer), oracle inside the target.
use jpv::recog::{classify, Verdict};
use jsonpath_rust::parser::parse_json_path;
use libfuzzer_sys::fuzz_target;
use std::sync::Once;

static INIT: Once = Once::new();

fuzz_target!(|data: &[u8]| {
    INIT.call_once(|| {
        // parse-work meter: the exponential re-parse of nested calls (known finding K7) returns an error instead of hanging
        pest::set_call_limit(std::num::NonZeroUsize::new(2_000_000));
    });
    let s = match std::str::from_utf8(data) {
        Ok(s) => s,
        Err(_) => return,
    };
    if s.len() > 300 {
        return;
    }
    match classify(s) {
        Verdict::Valid(_) => {
            if let Err(e) = parse_json_path(s) {
                let msg = e.to_string();
                if msg.contains("call limit reached") {
                    return;
                }
                panic!("C06: valid query rejected: {:?}: {}", s, msg.lines().next().unwrap_or(""));
            }
        }
        Verdict::Invalid(r) => {
            if let Ok(q) = parse_json_path(s) {
                panic!("C07: invalid query accepted ({} at {}: {}): {:?} read as {}", r.kind, r.pos, r.detail, s, q);
            }
        }
        Verdict::NotJudged(..) => {
            let _ = parse_json_path(s);
        }
    }
});
