//! Harness-owned JSON value with ordered members, locations, and the address -> location map that
//! turns references returned by the library into locations without trusting its path strings.

use serde_json::{Map, Number, Value};
use std::collections::HashMap;

#[derive(Clone, Debug, PartialEq)]
pub enum J {
    Null,
    Bool(bool),
    Int(i64),
    /// an integer above i64::MAX (serde_json keeps it as u64); never used for smaller values
    UInt(u64),
    Float(f64),
    Str(String),
    Arr(Vec<J>),
    Obj(Vec<(String, J)>),
}

#[derive(Clone, Debug, PartialEq, Eq, Hash, PartialOrd, Ord)]
pub enum Step {
    Key(String),
    Idx(usize),
}
pub type Loc = Vec<Step>;

pub const MAX_SAFE: i64 = 9007199254740991;

/// how the `serde_json::Map` of this build iterates its members: probed, not assumed, because cargo
/// unifies features - the library under test (or this harness, in its second build) may have switched
/// `preserve_order` on, and then insertion order *is* "the document's own member order"
pub fn value_keeps_insertion_order() -> bool {
    static PROBE: std::sync::OnceLock<bool> = std::sync::OnceLock::new();
    *PROBE.get_or_init(|| {
        let mut m = Map::new();
        m.insert("b".to_string(), Value::Null);
        m.insert("a".to_string(), Value::Null);
        m.insert("c".to_string(), Value::Null);
        m.keys().map(|k| k.as_str()).collect::<Vec<_>>() == ["b", "a", "c"]
    })
}

impl J {
    pub fn to_value(&self) -> Value {
        match self {
            J::Null => Value::Null,
            J::Bool(b) => Value::Bool(*b),
            J::Int(i) => Value::Number(Number::from(*i)),
            J::UInt(u) => Value::Number(Number::from(*u)),
            J::Float(f) => Number::from_f64(*f)
                .map(Value::Number)
                .unwrap_or(Value::Null),
            J::Str(s) => Value::String(s.clone()),
            J::Arr(a) => Value::Array(a.iter().map(|x| x.to_value()).collect()),
            J::Obj(m) => {
                let mut o = Map::new();
                for (k, v) in m {
                    o.insert(k.clone(), v.to_value());
                }
                Value::Object(o)
            }
        }
    }
    pub fn from_value(v: &Value) -> J {
        match v {
            Value::Null => J::Null,
            Value::Bool(b) => J::Bool(*b),
            Value::Number(n) => {
                if let Some(i) = n.as_i64() {
                    J::Int(i)
                } else if let Some(u) = n.as_u64() {
                    J::UInt(u)
                } else {
                    J::Float(n.as_f64().unwrap_or(0.0))
                }
            }
            Value::String(s) => J::Str(s.clone()),
            Value::Array(a) => J::Arr(a.iter().map(J::from_value).collect()),
            Value::Object(o) => J::Obj(o.iter().map(|(k, v)| (k.clone(), J::from_value(v))).collect()),
        }
    }
    /// members in the order the `serde_json::Value` built from this value will iterate them: sorted for
    /// the default BTreeMap-backed map, insertion order under `preserve_order`; duplicates: last wins
    pub fn sorted(&self) -> J {
        match self {
            J::Arr(a) => J::Arr(a.iter().map(|x| x.sorted()).collect()),
            J::Obj(m) => {
                let mut out: Vec<(String, J)> = vec![];
                for (k, v) in m {
                    if let Some(e) = out.iter_mut().find(|(k2, _)| k2 == k) {
                        e.1 = v.sorted();
                    } else {
                        out.push((k.clone(), v.sorted()));
                    }
                }
                // with serde_json's `preserve_order` the Value keeps insertion order: nothing to sort
                if !value_keeps_insertion_order() {
                    out.sort_by(|a, b| a.0.cmp(&b.0));
                }
                J::Obj(out)
            }
            x => x.clone(),
        }
    }
    /// members sorted by name whatever the map of this build does (for data types that keep them sorted)
    pub fn sorted_by_name(&self) -> J {
        match self {
            J::Arr(a) => J::Arr(a.iter().map(|x| x.sorted_by_name()).collect()),
            J::Obj(m) => {
                let mut out: Vec<(String, J)> = vec![];
                for (k, v) in m {
                    if let Some(e) = out.iter_mut().find(|(k2, _)| k2 == k) {
                        e.1 = v.sorted_by_name();
                    } else {
                        out.push((k.clone(), v.sorted_by_name()));
                    }
                }
                out.sort_by(|a, b| a.0.cmp(&b.0));
                J::Obj(out)
            }
            x => x.clone(),
        }
    }
    pub fn num(&self) -> Option<f64> {
        match self {
            J::Int(i) => Some(*i as f64),
            J::UInt(u) => Some(*u as f64),
            J::Float(f) => Some(*f),
            _ => None,
        }
    }
    pub fn is_container(&self) -> bool {
        matches!(self, J::Arr(_) | J::Obj(_))
    }
    pub fn get_loc(&self, loc: &[Step]) -> Option<&J> {
        let mut cur = self;
        for s in loc {
            cur = match (cur, s) {
                (J::Arr(a), Step::Idx(i)) => a.get(*i)?,
                (J::Obj(m), Step::Key(k)) => &m.iter().find(|(k2, _)| k2 == k)?.1,
                _ => return None,
            };
        }
        Some(cur)
    }
    pub fn get_loc_mut(&mut self, loc: &[Step]) -> Option<&mut J> {
        let mut cur = self;
        for s in loc {
            cur = match (cur, s) {
                (J::Arr(a), Step::Idx(i)) => a.get_mut(*i)?,
                (J::Obj(m), Step::Key(k)) => &mut m.iter_mut().find(|(k2, _)| k2 == k)?.1,
                _ => return None,
            };
        }
        Some(cur)
    }
    pub fn node_count(&self) -> usize {
        match self {
            J::Arr(a) => 1 + a.iter().map(|x| x.node_count()).sum::<usize>(),
            J::Obj(m) => 1 + m.iter().map(|x| x.1.node_count()).sum::<usize>(),
            _ => 1,
        }
    }
    pub fn depth(&self) -> usize {
        match self {
            J::Arr(a) => 1 + a.iter().map(|x| x.depth()).max().unwrap_or(0),
            J::Obj(m) => 1 + m.iter().map(|x| x.1.depth()).max().unwrap_or(0),
            _ => 0,
        }
    }
    /// all locations in pre-order (node before children, children in container order)
    pub fn all_locs(&self) -> Vec<Loc> {
        fn go(j: &J, cur: &mut Loc, out: &mut Vec<Loc>) {
            out.push(cur.clone());
            match j {
                J::Arr(a) => {
                    for (i, x) in a.iter().enumerate() {
                        cur.push(Step::Idx(i));
                        go(x, cur, out);
                        cur.pop();
                    }
                }
                J::Obj(m) => {
                    for (k, x) in m {
                        cur.push(Step::Key(k.clone()));
                        go(x, cur, out);
                        cur.pop();
                    }
                }
                _ => {}
            }
        }
        let mut out = vec![];
        go(self, &mut vec![], &mut out);
        out
    }
    pub fn text(&self) -> String {
        serde_json::to_string(&self.to_value()).unwrap_or_default()
    }
}

/// parse JSON text without serde_json's recursion limit (generated documents may be hundreds of
/// levels deep); callers run on threads with large stacks or on inputs of a few hundred levels
pub fn parse_json_unbounded(text: &str) -> Result<Value, String> {
    let mut de = serde_json::Deserializer::from_str(text);
    de.disable_recursion_limit();
    let v = <Value as serde::Deserialize>::deserialize(&mut de).map_err(|e| e.to_string())?;
    de.end().map_err(|e| e.to_string())?;
    Ok(v)
}

/// RFC 9535 2.3.5.2.2 equality: numbers by mathematical value, arrays element-wise, objects as
/// name -> value maps, everything else by kind and content.
pub fn eq_json(a: &J, b: &J) -> bool {
    match (a, b) {
        (J::Null, J::Null) => true,
        (J::Bool(x), J::Bool(y)) => x == y,
        (J::Str(x), J::Str(y)) => x == y,
        (J::Int(x), J::Int(y)) => x == y,
        (J::UInt(x), J::UInt(y)) => x == y,
        (J::Int(_), J::UInt(_)) | (J::UInt(_), J::Int(_)) => false,
        (J::Int(_) | J::UInt(_) | J::Float(_), J::Int(_) | J::UInt(_) | J::Float(_)) => a.num() == b.num(),
        (J::Arr(x), J::Arr(y)) => x.len() == y.len() && x.iter().zip(y).all(|(p, q)| eq_json(p, q)),
        (J::Obj(x), J::Obj(y)) => {
            x.len() == y.len()
                && x.iter()
                    .all(|(k, v)| y.iter().any(|(k2, v2)| k == k2 && eq_json(v, v2)))
        }
        _ => false,
    }
}

/// address of every node of `v` -> its location
pub fn node_map(v: &Value) -> HashMap<usize, Loc> {
    fn go(v: &Value, cur: &mut Loc, out: &mut HashMap<usize, Loc>) {
        out.insert(v as *const Value as usize, cur.clone());
        match v {
            Value::Array(a) => {
                for (i, x) in a.iter().enumerate() {
                    cur.push(Step::Idx(i));
                    go(x, cur, out);
                    cur.pop();
                }
            }
            Value::Object(m) => {
                for (k, x) in m {
                    cur.push(Step::Key(k.clone()));
                    go(x, cur, out);
                    cur.pop();
                }
            }
            _ => {}
        }
    }
    let mut out = HashMap::new();
    go(v, &mut vec![], &mut out);
    out
}

/// RFC 9535 2.7 normalized path of a location
pub fn normalized_path(loc: &[Step]) -> String {
    let mut s = String::from("$");
    for st in loc {
        match st {
            Step::Idx(i) => {
                s.push('[');
                s.push_str(&i.to_string());
                s.push(']');
            }
            Step::Key(k) => {
                s.push_str("['");
                s.push_str(&normal_name(k));
                s.push_str("']");
            }
        }
    }
    s
}

pub fn normal_name(k: &str) -> String {
    let mut s = String::new();
    for c in k.chars() {
        match c {
            '\'' => s.push_str("\\'"),
            '\\' => s.push_str("\\\\"),
            '\u{8}' => s.push_str("\\b"),
            '\u{c}' => s.push_str("\\f"),
            '\n' => s.push_str("\\n"),
            '\r' => s.push_str("\\r"),
            '\t' => s.push_str("\\t"),
            c if (c as u32) < 0x20 => s.push_str(&format!("\\u{:04x}", c as u32)),
            c => s.push(c),
        }
    }
    s
}

pub fn loc_text(loc: &[Step]) -> String {
    normalized_path(loc)
}
