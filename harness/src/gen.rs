//! Generators: documents, queries (guided by the document so that selectors hit), spellings.
//! All randomness comes from the `Src` choice sequence.

use crate::ast::*;
use crate::json::*;
use crate::oracle::{self, Node, Quirks};
use crate::regexo;
use crate::src::Src;

pub const PLAIN_KEYS: &[&str] = &[
    "a", "b", "c", "d", "ab", "A", "_", "a1", "é", "☺", "𝄞", "", " ", "a b", "0", "1", "-1", "*", "$", "@", "a.b",
    "length", "/", "~", "~0", "~1", "a/b", "\u{a0}", "\u{2028}", "\u{3000}a", "\u{7f}", "\u{ff21}", "\u{e000}", "\u{1f600}",
    "\u{e9}\u{e9}/x", "\u{1d11e}/\u{1d11e}",
    // direction marks and other invisible format characters, as they arrive in names exported from chat logs,
    // right-to-left column titles and copied Windows paths (Bidi_Control, ZWJ / ZWNJ, soft hyphen, word joiner)
    "\u{200e}name", "\u{5e9}\u{5dd}\u{200f}", "\u{202a}C:/Users/x\u{202c}", "\u{2066}a\u{2069}", "\u{61c}", "a\u{200d}b", "a\u{200c}b", "co\u{ad}op", "a\u{2060}b", "\u{202e}txt.exe",
    // every ASCII punctuation mark inside a name (AT&T, 100%, C#, a+b, k=v, x;y, <tag>, {id}, a^b, a|b, what?, a:b, a!)
    "R&D", "100%", "C#", "a+b", "k=v", "x;y", "<tag>", "{id}", "a^b", "a|b", "what?", "a:b", "a!", "a&&b", "a||b", "a==b", "`a`", "a,b;c",
    // long names that share their length and their first 16 (and 24, 32) bytes: labels, timestamps, hashes
    "app.kubernetes.io/version", "app.kubernetes.io/part-of", "2024-05-01T10:15:00Z", "2024-05-01T10:15:30Z", "kkkkkkkkkkkkkkkkkkkkkkkkkkkkkkkkkkkkkkkk1", "kkkkkkkkkkkkkkkkkkkkkkkkkkkkkkkkkkkkkkkk2",
    // numbers of different lengths as names (months, ids): their order in a document is not numeric
    "2", "10", "11", "100", "9", "007",
    // typographic quotation marks and other characters a "smart" editor or a lenient reader takes for quotes
    "O\u{2019}Brien", "l\u{2019}\u{e9}t\u{e9}", "\u{201c}draft\u{201d}", "\u{2018}x\u{2019}", "a\u{b4}b", "a`b", "5\u{2032}", "\u{ff07}a\u{ff07}", "\u{ff02}a\u{ff02}", "\u{ab}a\u{bb}", "\u{201e}a\u{201c}",
    // look-alikes that only a Unicode normalisation would identify (precomposed / decomposed, compatibility
    // characters), case variants, and long names
    "e\u{301}", "\u{c5}", "\u{212b}", "A\u{30a}", "\u{df}", "ss", "SS", "\u{131}", "i", "I",
    // words of other scripts (Cyrillic, CJK, Arabic and Hebrew - right to left -, Devanagari with combining
    // marks, Greek final sigma, Turkish dotted capital I)
    "\u{43a}\u{43b}\u{44e}\u{447}", "\u{540d}\u{524d}", "\u{645}\u{641}\u{62a}\u{627}\u{62d}", "\u{5de}\u{5e4}\u{5ea}\u{5d7}", "\u{915}\u{941}\u{902}\u{91c}\u{940}", "\u{3c2}", "\u{130}",
    // a full stop followed by a blank, C1 controls (allowed unescaped), a soft hyphen
    "a. b", "Dr. X", "\u{85}", "x\u{9f}y", "\u{ad}",
    // structural characters of the query language inside names
    "last, first", "a,b", "a:b", "?a", "a[b", "x]", "((", "[[", "a)(b",
    "((((((((((((((((((((((((((((((((((((((((((((((((((((((((((((((((((((((((((((((((((((((((((((((((((((((((((((((((((((((((((((((((((((((((((((((((((((((", "[[[[[[[[[[[[[[[[[[[[[[[[[[[[[[[[[[[[[[[[[[[[[[[[[[[[[[[[[[[[[[[[[[[[[[[[[[[[[[[[[[[[[[[[[[[[[[[[[[[[[[[[[[[[[[[[[[[[[[[[[[[[[[[[[[[[[[[[[[[[",
    // noncharacters and the ends of the planes (allowed unescaped in names)
    "\u{ffff}", "\u{fffe}", "\u{fdd0}", "\u{10ffff}", "\u{1fffe}x",
    "kkkkkkkkkkkkkkkkkkkkkkkkkkkkkkkkkkkkkkkkkkkkkkkkkkkkkkkkkkkkkkkkkkkkkk", "\u{e9}\u{e9}\u{e9}\u{e9}\u{e9}\u{e9}\u{e9}\u{e9}\u{e9}\u{e9}\u{e9}\u{e9}\u{e9}\u{e9}\u{e9}\u{e9}\u{e9}\u{e9}\u{e9}\u{e9}\u{e9}\u{e9}\u{e9}\u{e9}\u{e9}\u{e9}\u{e9}\u{e9}\u{e9}\u{e9}\u{e9}\u{e9}\u{e9}\u{e9}\u{e9}\u{e9}\u{e9}\u{e9}\u{e9}\u{e9}",
];

/// names that need an escape in at least one quoting style, or in every one
pub const SPECIAL_KEYS: &[&str] = &[
    "'", "\"", "\\", "a'b", "a\"b", "a\\b", "\n", "\t", "\u{0}", "\u{b}", "\u{1f}", "'a'", "\"a\"", "'\"", "\\n", "\\\\",
    "\r", "\u{8}", "\u{c}",
    // multi-byte characters in front of a character that needs an escape (byte offset != char offset)
    "\u{e9}\u{e9}\\x", "\u{263a}\\", "\u{1d11e}'s", "\u{e9}\"\u{e9}", "\u{3000}\n\u{3000}", "\u{1f600}\\\u{1f600}\\",
    // a quote at the start only
    "'tis", "\"x", "'\u{e9}",
    // a backslash in front of a solidus (each may or must be escaped: `\\\/`, `\\/`)
    "dir\\/file", "\\/", "a\\/\\/b",
    // doubled quotes at both ends
    "''k''", "\"\"k\"\"",
];

#[derive(Clone, Debug)]
pub struct GenCfg {
    pub max_depth: usize,
    pub max_width: usize,
    /// member names may come from SPECIAL_KEYS
    pub special_keys: bool,
    /// string spellings may use escapes where none is needed, hex case variation etc.
    pub free_escapes: bool,
    pub max_segs: usize,
    pub filter_depth: usize,
    pub funcs: bool,
    pub regex: bool,
    /// weight of a regular-expression test among the atoms of a logical expression (8 of about 130 by default)
    pub regex_weight: u32,
    pub ext_funcs: bool,
    /// weight of multi-selector segments
    pub union_weight: u32,
    /// string literals in filters may contain characters that need escapes
    pub special_literals: bool,
    /// string literals in filters may be spelled with unnecessary escapes
    pub free_lit_escapes: bool,
}

impl GenCfg {
    pub fn plain() -> GenCfg {
        GenCfg {
            max_depth: 4,
            max_width: 4,
            special_keys: false,
            free_escapes: false,
            max_segs: 4,
            filter_depth: 2,
            funcs: true,
            regex: false,
            regex_weight: 8,
            ext_funcs: false,
            union_weight: 15,
            special_literals: false,
            free_lit_escapes: false,
        }
    }
}

// ------------------------------------------------------------------------------------------------
// documents

/// see `gen_scalar`: 2^53, 2^53+2, 2^62 and -2^63 are doubles; i64::MAX rounds to 2^63 and u64::MAX to 2^64,
/// which no other generated number equals
pub const BIG_INTS: &[i64] = &[1 << 53, -(1 << 53), (1 << 53) + 2, 1 << 62, i64::MIN, i64::MAX];
pub const BIG_UINTS: &[u64] = &[(1 << 63) + 2048, u64::MAX - 2047, u64::MAX];

/// the float literal that denotes exactly this integer, if there is one
pub fn exact_float_lit_i(i: i64) -> Option<NumLit> {
    if (i as f64) as i128 == i as i128 {
        Some(num_lit_float(i as f64))
    } else {
        None
    }
}
pub fn exact_float_lit_u(u: u64) -> Option<NumLit> {
    if (u as f64) as u128 == u as u128 {
        Some(num_lit_float(u as f64))
    } else {
        None
    }
}

pub fn gen_scalar(src: &mut Src) -> J {
    match src.weighted(&[10, 8, 8, 25, 10, 25, 4]) {
        0 => J::Null,
        1 => J::Bool(false),
        2 => J::Bool(true),
        3 => J::Int(*src.pick(&[0, 1, 2, -1, 3, 5, 10, 100, 1_700_000_000_000, 1_234_567_890_123_456, 4_294_967_296, -2_147_483_649])),
        4 => J::Float(*src.pick(&[1.0, 1.5, 0.5, -0.0, 2.0, 0.1, 1e2, -1.5, 0.0, 0.3, 0.30000000000000004, 1e-20])),
        5 => J::Str(src.pick(&["", "a", "b", "ab", "1", "A", "é", "𝄞", "abc", " ", "a. b", "(", "f(x)", "2024-02-29T23:59:60Z", "R&D", "a%b#c;", "<a>{b}", "x+y=z", "a^b|c!", "9", "10", "010", "1e1", "Inf", "NaN", "true", "null", "\u{f6}", "\u{d6}l", "\u{410}\u{43d}\u{43d}\u{430}", "\u{411}\u{43e}\u{440}\u{438}\u{441}", "\u{65e5}\u{672c}", "\u{65e5}\u{4e2d}", "caf\u{e9}", "caf\u{e8}"]).to_string()),
        _ => match src.below(7) {
            4 => J::Str(src.pick(&["x", "é", "𝄞"]).repeat(*src.pick(&[64usize, 255, 256, 257, 1000]))),
            // integers beyond the I-JSON range (a document may hold them; a query literal may not): a
            // curated set on which conversion to f64 is injective and keeps the order, so that exact
            // comparison and comparison as doubles agree on every pair that can meet
            5 => J::Int(*src.pick(BIG_INTS)),
            6 => J::UInt(*src.pick(BIG_UINTS)),
            0 => J::Int(MAX_SAFE),
            1 => J::Int(-MAX_SAFE),
            2 => J::Float(1e300),
            _ => J::Float(0.1 + 0.2),
        },
    }
}

pub fn gen_key(src: &mut Src, cfg: &GenCfg) -> String {
    if cfg.special_keys && src.chance(1, 3) {
        src.pick(SPECIAL_KEYS).to_string()
    } else if src.chance(3, 4) {
        // a short head of the list, so that names repeat across levels and `..name` finds several
        if src.chance(1, 12) {
            src.pick(&["\u{1d11e}", "\u{ff21}", "\u{e000}", "\u{1f600}"]).to_string()
        } else {
            src.pick(&PLAIN_KEYS[..6]).to_string()
        }
    } else {
        src.pick(PLAIN_KEYS).to_string()
    }
}

pub fn gen_value(src: &mut Src, depth_left: usize, cfg: &GenCfg) -> J {
    let kind = if depth_left == 0 {
        0
    } else {
        src.weighted(&[35, 30, 35])
    };
    // now and then a wide container of scalars (lengths the small shapes never reach), rarely a very
    // wide one (beyond 32 / 64 / 256 elements)
    if kind != 0 && src.chance(1, 25) {
        let n = if src.chance(1, 8) { *src.pick(&[31usize, 33, 63, 65, 127, 129, 255, 257, 300]) } else { 5 + src.below(12) };
        // a list of records (the commonest shape of real documents): containers at two-digit indexes
        if kind == 1 && depth_left >= 2 && src.chance(1, 3) {
            let n = n.min(80);
            let keys: Vec<String> = (0..1 + src.below(3)).map(|_| gen_key(src, cfg)).collect();
            // a page of records may have holes: slots holding null or a bare number between the records
            let holes = src.chance(1, 3);
            return J::Arr(
                (0..n)
                    .map(|i| {
                        if holes && src.chance(1, 6) {
                            return if src.bool() { J::Null } else { J::Int(i as i64) };
                        }
                        let mut m: Vec<(String, J)> = vec![];
                        for k in &keys {
                            if !m.iter().any(|(k2, _)| k2 == k) && !src.chance(1, 6) {
                                let v = if src.chance(1, 5) { J::Arr(vec![J::Int(i as i64), gen_scalar(src)]) } else { gen_scalar(src) };
                                m.push((k.clone(), v));
                            }
                        }
                        if src.chance(1, 10) {
                            J::Arr(m.into_iter().map(|x| x.1).collect())
                        } else {
                            J::Obj(m)
                        }
                    })
                    .collect(),
            );
        }
        // mostly scalars only; one wide container in three mixes small containers among them (settings
        // objects, heterogeneous lists)
        let mixed = depth_left >= 2 && src.chance(1, 3);
        let mut elem = |src: &mut Src, i: usize| -> J {
            if mixed && src.chance(1, 4) {
                if src.bool() {
                    J::Arr(vec![J::Int(i as i64)])
                } else {
                    J::Obj(vec![("a".to_string(), J::Int(i as i64))])
                }
            } else {
                gen_scalar(src)
            }
        };
        return if kind == 1 {
            J::Arr((0..n).map(|i| elem(src, i)).collect())
        } else {
            let mut m: Vec<(String, J)> = vec![];
            for i in 0..n {
                let k = if src.bool() { format!("k{}", i) } else { gen_key(src, cfg) };
                if !m.iter().any(|(k2, _)| *k2 == k) {
                    let v = elem(src, i);
                    m.push((k, v));
                }
            }
            J::Obj(m)
        };
    }
    match kind {
        0 => gen_scalar(src),
        1 => {
            let n = src.weighted(&[8, 20, 30, 25, 17]).min(cfg.max_width);
            J::Arr((0..n).map(|_| gen_value(src, depth_left - 1, cfg)).collect())
        }
        _ => {
            let n = src.weighted(&[8, 20, 30, 25, 17]).min(cfg.max_width);
            let mut m: Vec<(String, J)> = vec![];
            // now and then a "list written as an object": every name a number, of different lengths
            let numeric = src.chance(1, 16);
            for _ in 0..n {
                let k = if numeric { src.pick(&["1", "2", "3", "9", "10", "11", "12", "100", "20", "0"]).to_string() } else { gen_key(src, cfg) };
                if m.iter().any(|(k2, _)| *k2 == k) {
                    continue;
                }
                let v = gen_value(src, depth_left - 1, cfg);
                // the "escape twin": a second member named like the minimal single-quoted *spelling* of this
                // name (`a\b` next to `a\\b`, `'` next to `\'`) - what an implementation that forgets to decode
                // an escape would look up
                let twin = encode_min(&k, &Quote::S);
                let want_twin = cfg.special_keys && twin != k && src.chance(1, 3);
                m.push((k, v));
                if want_twin && !m.iter().any(|(k2, _)| *k2 == twin) {
                    m.push((twin, gen_scalar(src)));
                }
            }
            J::Obj(m)
        }
    }
}

/// a long list of records (33 … 4 097: beyond 2^5, 2^6, 2^8, 2^10, 2^12) with optional members, rows that are
/// no records, repeated values - and one query from the shapes everyday use consists of.  Shared by the checks
/// that judge nodes (C01), order (C02) and paths (C03): whatever an implementation does differently "for long
/// lists" - blocks, indexes, worker threads, fast paths keyed on the shape of the filter - must not show.
pub fn gen_long_records(src: &mut Src) -> (J, String) {
    gen_long_records_capped(src, usize::MAX)
}

/// the same with the length of the list limited to `cap` (for checks whose work per selected node is large)
pub fn gen_long_records_capped(src: &mut Src, cap: usize) -> (J, String) {
    let n = (*src.pick(&[33usize, 40, 65, 129, 257, 1025, 1500, 4097])).min(cap);
    let names = ["ann", "bob", "eve", "al", ""];
    let rows: Vec<J> = (0..n)
        .map(|i| {
            if src.chance(1, 16) {
                return src.pick(&[J::Null, J::Int(7), J::Str("ann".into()), J::Arr(vec![J::Int(1)]), J::Obj(vec![])]).clone();
            }
            let mut m: Vec<(String, J)> = vec![("id".to_string(), J::Int((i % 50) as i64))];
            if !src.chance(1, 5) {
                m.push(("name".to_string(), if src.chance(1, 10) { J::Null } else { J::Str(src.pick(&names).to_string()) }));
            }
            if src.chance(1, 3) {
                m.push(("tags".to_string(), J::Arr((0..src.below(3)).map(|t| J::Int(t as i64)).collect())));
            }
            if src.chance(1, 6) {
                m.push(("n".to_string(), J::Float(0.5 * (i % 7) as f64)));
            }
            J::Obj(m).sorted()
        })
        .collect();
    let under = src.bool();
    let doc = if under { J::Obj(vec![("rows".to_string(), J::Arr(rows))]) } else { J::Arr(rows) };
    let head = if under { "$.rows" } else { "$" };
    let tail = match src.below(26) {
        0 => "[*].id".to_string(),
        1 => "[*].name".to_string(),
        2 => "[*].tags[*]".to_string(),
        3 => "[*].tags[:1]".to_string(),
        4 => "[*]['id','name']".to_string(),
        5 => "[?@.name == 'ann']".to_string(),
        6 => "[?@.name != 'ann']".to_string(),
        7 => "[?@.id < 7]".to_string(),
        8 => "[?@.id >= 48 || @.id == 0]".to_string(),
        9 => "[?@.id == 3 || @.id == 1 || @.id == 49 || @.id == 2 || @.id == 3.0]".to_string(),
        10 => "[?@.name]".to_string(),
        11 => "[?!@.name]".to_string(),
        12 => "[?@.tags[0] == 0 && @.name]".to_string(),
        13 => "[?match(@.name, 'a.*')]".to_string(),
        14 => "[?search(@.name, 'n')].id".to_string(),
        15 => "[?length(@.name) == 3]".to_string(),
        16 => "[?count(@.tags[*]) > 1]".to_string(),
        17 => "[?@.n > 1.0]".to_string(),
        18 => "[::-1].id".to_string(),
        19 => "[1::7]".to_string(),
        20 => "[-40:].name".to_string(),
        21 => "..id".to_string(),
        22 => "..[?@ == 1]".to_string(),
        23 => "[?@.id == @.tags[0] || @.id == @.tags[-1]]".to_string(),
        24 => "[?@.id == 1][?@ == 'ann']".to_string(),
        _ => "[?(@.name == 'bob')]".to_string(),
    };
    let text = if tail.starts_with("..") && !under { format!("${}", tail) } else { format!("{}{}", head, tail) };
    (doc, text)
}

/// a document; the root is a container most of the time, a scalar sometimes
pub fn gen_doc(src: &mut Src, cfg: &GenCfg) -> J {
    if src.chance(1, 25) {
        gen_scalar(src)
    } else if src.chance(1, 60) {
        // a deep, narrow document (depth 8-40, sometimes beyond 64 / 128 / 256)
        let depth = match src.weighted(&[80, 15, 5]) {
            0 => 8 + src.below(33),
            1 => 41 + src.below(90),
            _ => 131 + src.below(170),
        };
        let mut j = gen_scalar(src);
        for i in 0..depth {
            // one choice per level (deep documents must not eat the whole choice sequence): its bits
            // decide the kind of the level and its siblings — scalars and small containers, so that
            // several containers meet at one deep level
            let c = src.next();
            let bit = |k: u32| (c >> (31 - k)) & 1 == 1;
            let sib = |k: u32| -> J {
                match (c >> (20 - 2 * k)) & 3 {
                    0 => J::Int(((c >> 3) & 7) as i64),
                    1 => J::Arr(vec![J::Int(((c >> 6) & 7) as i64)]),
                    2 => J::Obj(vec![("a".to_string(), J::Int((c & 7) as i64))]),
                    _ => J::Str("s".to_string()),
                }
            };
            j = if bit(0) {
                let mut items = vec![j];
                if bit(1) && bit(2) {
                    items.insert(0, sib(0));
                }
                if bit(3) && bit(4) {
                    items.push(sib(1));
                }
                J::Arr(items)
            } else {
                let key = ["a", "b", "c", "d"][((c >> 24) & 3) as usize].to_string();
                let mut m = vec![(key.clone(), j)];
                if bit(1) && bit(2) {
                    m.push((format!("s{}", i), sib(0)));
                }
                if bit(3) && bit(4) && key != "A" {
                    m.insert(0, ("A".to_string(), sib(1)));
                }
                J::Obj(m)
            };
        }
        j
    } else {
        let d = 1 + src.below(cfg.max_depth);
        let mut j = gen_value(src, d, cfg);
        if !j.is_container() {
            j = J::Arr(vec![j]);
        }
        j
    }
}

// ------------------------------------------------------------------------------------------------
// spellings

pub fn gen_blank(src: &mut Src) -> String {
    if !src.chance(3, 10) {
        return String::new();
    }
    let n = 1 + src.weighted(&[70, 25, 5]);
    (0..n).map(|_| *src.pick(&[' ', '\t', '\n', '\r'])).collect()
}

pub fn gen_blanks(src: &mut Src, n: usize) -> Vec<String> {
    (0..n).map(|_| gen_blank(src)).collect()
}

/// spell a string value; `free`: use escapes although none is needed, vary hex case
pub fn spell_str(src: &mut Src, val: &str, free: bool) -> StrLit {
    let needs_s = val.contains('\'');
    let needs_d = val.contains('"');
    let quote = if free {
        if src.bool() {
            Quote::D
        } else {
            Quote::S
        }
    } else if needs_s && !needs_d {
        Quote::D
    } else if needs_d && !needs_s {
        Quote::S
    } else if src.chance(1, 3) {
        Quote::D
    } else {
        Quote::S
    };
    if !free {
        return StrLit::with_quote(val, quote);
    }
    let mut raw = String::new();
    for c in val.chars() {
        let must = must_escape(c, &quote);
        let esc = must || src.chance(1, 6);
        if !esc {
            raw.push(c);
            continue;
        }
        // available escape forms for this character
        let short = if c == '\'' && quote == Quote::S {
            Some('\'')
        } else if c == '"' && quote == Quote::D {
            Some('"')
        } else {
            short_escape(c)
        };
        match (short, src.below(4)) {
            (Some(e), 0 | 1) => {
                raw.push('\\');
                raw.push(e);
            }
            (_, k) => raw.push_str(&u_escape(c, (k % 3) as u8)),
        }
    }
    StrLit {
        val: val.to_string(),
        quote,
        raw,
    }
}

// ------------------------------------------------------------------------------------------------
// queries

fn strict() -> Quirks {
    Quirks::strict()
}

fn gen_name<'a>(src: &mut Src, focus: Option<&Node<'a>>, cfg: &GenCfg) -> String {
    if let Some(n) = focus {
        // a name that looks like an index, applied to an array (must select nothing)
        if let J::Arr(a) = n.v {
            if src.chance(1, 2) {
                return (src.below(a.len() + 1) as i64 - if src.chance(1, 4) { 1 } else { 0 }).to_string();
            }
        }
        // a property of another dialect's arrays, strings and objects (JavaScript, Jayway, JMESPath): a name
        // like any other here - it selects a member of that name or nothing
        if !matches!(n.v, J::Obj(_)) || src.chance(1, 12) {
            if src.chance(1, 3) {
                return src.pick(&["length", "size", "count", "keys", "values", "first", "last", "min", "max", "type", "constructor", "__proto__", "toString", "len"]).to_string();
            }
        }
        if let J::Obj(m) = n.v {
            if !m.is_empty() && src.chance(4, 5) {
                return m[src.below(m.len())].0.clone();
            }
        }
    }
    gen_key(src, cfg)
}

fn gen_index<'a>(src: &mut Src, focus: Option<&Node<'a>>) -> i64 {
    // an index that equals a numeric-looking member name of an object (must select nothing)
    if let Some(J::Obj(m)) = focus.map(|n| n.v) {
        let nums: Vec<i64> = m.iter().filter_map(|(k, _)| k.parse::<i64>().ok()).collect();
        if !nums.is_empty() && src.chance(2, 3) {
            return nums[src.below(nums.len())];
        }
    }
    let len = match focus.map(|n| n.v) {
        Some(J::Arr(a)) => a.len() as i64,
        _ => 1,
    };
    if src.chance(1, 40) {
        return *src.pick(&[MAX_SAFE, -MAX_SAFE, 1 << 31, -(1 << 31), 1 << 32]);
    }
    // 0 first (shrink target), then the rest of [-len-2, len+1]
    let r = src.range(0, 2 * len + 3);
    if r <= len + 1 {
        r
    } else {
        -(r - len - 1)
    }
}

fn gen_bound(src: &mut Src, len: i64) -> Option<i64> {
    if src.chance(3, 10) {
        None
    } else if src.chance(1, 40) {
        Some(*src.pick(&[MAX_SAFE, -MAX_SAFE, 1 << 31, -(1 << 31)]))
    } else {
        let r = src.range(0, 2 * len + 4);
        Some(if r <= len + 2 { r } else { -(r - len - 2) })
    }
}

pub fn gen_slice<'a>(src: &mut Src, focus: Option<&Node<'a>>) -> Sel {
    let len = match focus.map(|n| n.v) {
        Some(J::Arr(a)) => a.len() as i64,
        _ => 2,
    };
    let start = gen_bound(src, len);
    let end = gen_bound(src, len);
    let step = if src.chance(4, 10) {
        None
    } else {
        Some(*src.pick(&[1, 2, -1, -2, 3, -3, 0, 5, -5]))
    };
    let colon2 = step.is_none() && src.chance(1, 4);
    Sel::Slice(start, end, step, colon2)
}

pub fn gen_sel<'a>(src: &mut Src, root: &'a J, focus: Option<&Node<'a>>, cfg: &GenCfg, fdepth: usize) -> Sel {
    // bias towards what applies to the focus node
    let (wn, wi, ws) = match focus.map(|n| n.v) {
        Some(J::Obj(_)) => (45, 6, 5),
        Some(J::Arr(_)) => (6, 30, 22),
        _ => (20, 12, 10),
    };
    let wf = if fdepth > 0 { 22 } else { 0 };
    match src.weighted(&[wn, wi, 15, ws, wf]) {
        0 => {
            let name = gen_name(src, focus, cfg);
            Sel::Name(spell_str(src, &name, cfg.free_escapes))
        }
        1 => Sel::Index(gen_index(src, focus)),
        2 => Sel::Wild,
        3 => gen_slice(src, focus),
        _ => {
            // the expression is guided by one child of the focus node
            let kid = focus.and_then(|n| {
                let kids = oracle_children(n);
                if kids.is_empty() {
                    None
                } else {
                    Some(kids[src.below(kids.len())].clone())
                }
            });
            Sel::Filter(gen_expr(src, root, kid.as_ref(), cfg, fdepth - 1, 2))
        }
    }
}

fn oracle_children<'a>(n: &Node<'a>) -> Vec<Node<'a>> {
    let q = Query {
        abs: false,
        segs: vec![Seg {
            desc: false,
            sels: vec![Sel::Wild],
            dot: false,
        }],
    };
    oracle::eval_filter_query(&q, n, n.v, &strict())
}

pub fn gen_seg<'a>(src: &mut Src, root: &'a J, focus: Option<&Node<'a>>, cfg: &GenCfg, fdepth: usize) -> Seg {
    let desc = src.chance(1, 5);
    // under `..` the selector applies to every descendant: pick the focus among them
    let pool: Vec<Node<'a>>;
    let focus2: Option<&Node<'a>> = if desc {
        match focus {
            Some(n) => {
                let q = Query {
                    abs: false,
                    segs: vec![Seg {
                        desc: true,
                        sels: vec![Sel::Wild],
                        dot: false,
                    }],
                };
                pool = oracle::eval_filter_query(&q, n, root, &strict());
                let conts: Vec<&Node<'a>> = pool.iter().filter(|x| x.v.is_container()).collect();
                if conts.is_empty() || src.chance(1, 4) {
                    focus
                } else {
                    Some(conts[src.below(conts.len())])
                }
            }
            None => None,
        }
    } else {
        focus
    };
    let nsel = if src.chance(cfg.union_weight, 100) {
        2 + src.weighted(&[70, 30])
    } else {
        1
    };
    let mut sels: Vec<Sel> = vec![];
    for i in 0..nsel {
        if i > 0 && src.chance(1, 6) {
            // duplicate selector
            let s: Sel = sels[src.below(sels.len())].clone();
            sels.push(s);
        } else {
            sels.push(gen_sel(src, root, focus2, cfg, fdepth));
        }
    }
    let mut seg = Seg {
        desc,
        sels,
        dot: false,
    };
    if seg.can_dot() && !src.chance(2, 5) {
        seg.dot = true;
    }
    seg
}

/// segments starting from the nodes in `start` (used for `$` queries and for filter queries)
pub fn gen_segs<'a>(src: &mut Src, root: &'a J, start: Vec<Node<'a>>, cfg: &GenCfg, fdepth: usize, max: usize) -> Vec<Seg> {
    let n = match max {
        0 => 0,
        1 => src.weighted(&[20, 80]),
        2 => src.weighted(&[10, 45, 45]),
        3 => src.weighted(&[5, 30, 40, 25]),
        4..=6 => src.weighted(&[4, 26, 35, 22, 13]).min(max),
        // long chains (only asked for on deep documents)
        _ => 1 + src.below(max),
    };
    let mut cur = start;
    let mut segs = vec![];
    let mut descendants = 0;
    for _ in 0..n {
        let focus = if cur.is_empty() {
            None
        } else {
            // prefer containers so that the next selector has something to select
            let conts: Vec<usize> = (0..cur.len()).filter(|i| cur[*i].v.is_container()).collect();
            if !conts.is_empty() && !src.chance(1, 5) {
                Some(cur[conts[src.below(conts.len())]].clone())
            } else {
                Some(cur[src.below(cur.len())].clone())
            }
        };
        let mut seg = gen_seg(src, root, focus.as_ref(), cfg, fdepth);
        // a long chain on a deep document gets at most two descendant segments: every further one multiplies
        // the node list by the depth once more (a thorough run met a query with five of them on a document 200
        // levels deep: the library needed 43 GB for what the RFC says the answer is - no verdict to be had)
        if max > 6 {
            if seg.desc && descendants >= 2 {
                seg.desc = false;
            }
            if seg.desc {
                descendants += 1;
            }
        }
        // follow the strict semantics to know where the query stands
        let q = Query {
            abs: false,
            segs: vec![seg.clone()],
        };
        let mut next = vec![];
        for n in &cur {
            next.extend(oracle::eval_filter_query(&q, n, root, &strict()));
            if next.len() > 200 {
                break;
            }
        }
        cur = next;
        segs.push(seg);
    }
    segs
}

pub fn gen_query(src: &mut Src, root: &J, cfg: &GenCfg) -> Query {
    oracle::reset();
    let start = Node {
        steps: vec![],
        v: root,
    };
    // on a deep document half of the queries are long chains that follow it down (tens of segments)
    let depth = root.depth();
    let max_segs = if depth >= 8 && src.bool() { depth.min(64).max(7) } else { cfg.max_segs };
    let segs = gen_segs(src, root, vec![start], cfg, cfg.filter_depth, max_segs);
    let q = Query { abs: true, segs };
    // a query whose reference evaluation does not finish within the step budget (unions over
    // descendants over nested filters multiply) is replaced by the trivial query: neither the harness
    // nor the library is asked to do that much work, and no verdict is derived from it
    oracle::reset();
    let n = oracle::eval(&q, root, &strict()).len();
    // (also: results of thousands of nodes, each of which a check may re-query)
    if oracle::take_gave_up() || n > 2_000 {
        return Query { abs: true, segs: vec![] };
    }
    q
}

// ------------------------------------------------------------------------------------------------
// filter expressions

pub fn lit_of_value(src: &mut Src, v: &J, cfg: &GenCfg) -> Option<Lit> {
    Some(match v {
        J::Null => Lit::Null,
        J::Bool(b) => Lit::Bool(*b),
        // an integer literal must lie within the I-JSON range; beyond it only a float spelling exists
        J::Int(i) if i.unsigned_abs() > MAX_SAFE as u64 => Lit::Num(exact_float_lit_i(*i)?),
        J::UInt(u) => Lit::Num(exact_float_lit_u(*u)?),
        J::Int(i) => {
            if src.chance(1, 4) {
                // same number, float spelling
                Lit::Num(alt_num_spelling(src, *i as f64))
            } else {
                Lit::Num(num_lit_int(*i))
            }
        }
        J::Float(f) => {
            if f.fract() == 0.0 && f.abs() < 1e15 && src.chance(1, 3) && !(*f == 0.0 && f.is_sign_negative()) {
                Lit::Num(num_lit_int(*f as i64))
            } else {
                Lit::Num(num_lit_float(*f))
            }
        }
        J::Str(s) => {
            if !cfg.special_literals && needs_escape_anyway(s) {
                return None;
            }
            Lit::Str(spell_str(src, s, cfg.free_lit_escapes))
        }
        _ => return None,
    })
}

/// a string that cannot be written without an escape in either quoting style
pub fn needs_escape_anyway(s: &str) -> bool {
    s.chars().any(|c| c == '\\' || (!is_unescaped(c) && c != '\'' && c != '"')) || (s.contains('\'') && s.contains('"'))
}

pub fn alt_num_spelling(src: &mut Src, f: f64) -> NumLit {
    // integer-valued doubles get exponent / fraction spellings
    if f.fract() == 0.0 && f.abs() < 1e15 {
        let i = f as i64;
        let text = match src.below(5) {
            0 => format!("{}.0", i),
            1 => format!("{}e0", i),
            2 => format!("{}E+0", i),
            3 if i % 10 == 0 && i != 0 => format!("{}e1", i / 10),
            3 => format!("{}.00", i),
            _ if i == 0 => "0.0e-1".to_string(),
            _ => format!("{}0e-1", i),
        };
        NumLit {
            text,
            val: f,
            int_text: false,
        }
    } else {
        num_lit_float(f)
    }
}

pub fn gen_lit(src: &mut Src, cfg: &GenCfg) -> Lit {
    let v = gen_scalar(src);
    lit_of_value(src, &v, cfg).unwrap_or(Lit::Null)
}

/// a singular query from `@` (guided by `cur`) or from `$`
pub fn gen_sing<'a>(src: &mut Src, root: &'a J, cur: Option<&Node<'a>>, cfg: &GenCfg) -> Sing {
    let abs = src.chance(1, 5);
    let rootn = Node {
        steps: vec![],
        v: root,
    };
    let mut at: Option<Node<'a>> = if abs { Some(rootn) } else { cur.cloned() };
    let n = src.weighted(&[25, 50, 20, 5]);
    let mut steps = vec![];
    for _ in 0..n {
        let use_name = match at.as_ref().map(|x| x.v) {
            Some(J::Obj(_)) => !src.chance(1, 10),
            Some(J::Arr(_)) => src.chance(1, 10),
            _ => src.bool(),
        };
        if use_name {
            let name = gen_name(src, at.as_ref(), cfg);
            let lit = spell_str(src, &name, cfg.free_escapes);
            let dot = is_shorthand(&name) && !src.chance(1, 3);
            steps.push(SingStep::Name(lit, dot));
        } else {
            steps.push(SingStep::Index(gen_index(src, at.as_ref())));
        }
        // advance
        at = match at {
            Some(nd) => {
                let q = Sing {
                    abs: false,
                    steps: vec![steps.last().unwrap().clone()],
                }
                .to_query();
                oracle::eval_filter_query(&q, &nd, root, &strict()).into_iter().next()
            }
            None => None,
        };
    }
    Sing { abs, steps }
}

pub fn gen_filter_query<'a>(src: &mut Src, root: &'a J, cur: Option<&Node<'a>>, cfg: &GenCfg, fdepth: usize) -> Query {
    let abs = src.chance(1, 5);
    let rootn = Node {
        steps: vec![],
        v: root,
    };
    let start: Vec<Node<'a>> = if abs {
        vec![rootn]
    } else {
        cur.cloned().into_iter().collect()
    };
    let segs = gen_segs(src, root, start, cfg, fdepth, 3);
    Query { abs, segs }
}

fn gen_value_func<'a>(src: &mut Src, root: &'a J, cur: Option<&Node<'a>>, cfg: &GenCfg, fdepth: usize) -> Func {
    match src.below(3) {
        0 => Func {
            name: "length".into(),
            args: vec![if src.chance(1, 8) {
                Arg::Lit(gen_lit(src, cfg))
            } else if src.chance(1, 8) {
                Arg::F(Func {
                    name: "value".into(),
                    args: vec![Arg::Q(gen_filter_query(src, root, cur, cfg, fdepth))],
                })
            } else {
                Arg::Q(gen_sing(src, root, cur, cfg).to_query())
            }],
        },
        1 => Func {
            name: "count".into(),
            args: vec![Arg::Q(gen_filter_query(src, root, cur, cfg, fdepth))],
        },
        _ => Func {
            name: "value".into(),
            args: vec![Arg::Q(gen_filter_query(src, root, cur, cfg, fdepth))],
        },
    }
}

pub fn gen_cmpable<'a>(src: &mut Src, root: &'a J, cur: Option<&Node<'a>>, cfg: &GenCfg, fdepth: usize) -> Cmpable {
    let wf = if cfg.funcs { 15 } else { 0 };
    match src.weighted(&[50, 35, wf]) {
        0 => Cmpable::Sing(gen_sing(src, root, cur, cfg)),
        1 => Cmpable::Lit(gen_lit(src, cfg)),
        _ => Cmpable::F(gen_value_func(src, root, cur, cfg, fdepth)),
    }
}

fn gen_cmp<'a>(src: &mut Src, root: &'a J, cur: Option<&Node<'a>>, cfg: &GenCfg, fdepth: usize) -> Expr {
    let l = gen_cmpable(src, root, cur, cfg, fdepth);
    let op = *src.pick(&Op::ALL);
    // make true comparisons likely: a literal equal to what the left side denotes for `cur`
    let r = if src.chance(1, 2) {
        let lv = cur.and_then(|c| oracle::cmp_value(&l, c, root, &strict()));
        match lv.and_then(|v| lit_of_value(src, &v, cfg)) {
            Some(lit) => Cmpable::Lit(lit),
            None => gen_cmpable(src, root, cur, cfg, fdepth),
        }
    } else {
        gen_cmpable(src, root, cur, cfg, fdepth)
    };
    if src.chance(1, 4) {
        Expr::Cmp(Box::new(r), op, Box::new(l))
    } else {
        Expr::Cmp(Box::new(l), op, Box::new(r))
    }
}

pub fn gen_regex_test<'a>(src: &mut Src, root: &'a J, cur: Option<&Node<'a>>, cfg: &GenCfg) -> Func {
    let re = regexo::gen_pattern(src);
    let pat = regexo::render(&re);
    let name = if src.bool() { "match" } else { "search" };
    // subject: mostly a singular query from `@` (sometimes from `$`), now and then a literal; pattern:
    // mostly the generated literal, now and then a string of the document reached from `@` or `$`
    // (every combination of "uses the current node" / "does not" for the two arguments)
    let subj = if src.chance(1, 12) {
        Arg::Lit(Lit::Str(StrLit::plain(*src.pick(&["a", "ab", "abc", "b", ""]))))
    } else {
        Arg::Q(gen_sing(src, root, cur, cfg).to_query())
    };
    let pattern = match src.weighted(&[76, 12, 12]) {
        0 => Arg::Lit(Lit::Str(spell_str(src, &pat, cfg.free_lit_escapes))),
        1 => Arg::Q(Query { abs: false, segs: vec![] }),
        _ => Arg::Q(gen_sing(src, root, cur, cfg).to_query()),
    };
    Func {
        name: name.into(),
        args: vec![subj, pattern],
    }
}

/// a call of one of the library's documented extension functions; arguments are literals or singular
/// queries (zero or one node)
pub fn gen_ext_test<'a>(src: &mut Src, root: &'a J, cur: Option<&Node<'a>>, cfg: &GenCfg) -> Func {
    let name = *src.pick(&["in", "nin", "none_of", "any_of", "subset_of"]);
    let mut arg = |src: &mut Src| {
        if src.chance(1, 6) {
            Arg::Lit(gen_lit(src, cfg))
        } else {
            Arg::Q(gen_sing(src, root, cur, cfg).to_query())
        }
    };
    let a = arg(src);
    let b = arg(src);
    Func { name: name.into(), args: vec![a, b] }
}

/// `levels`: how deep the logical structure may still nest
pub fn gen_expr<'a>(src: &mut Src, root: &'a J, cur: Option<&Node<'a>>, cfg: &GenCfg, fdepth: usize, levels: usize) -> Expr {
    let wl = if levels > 0 { 8 } else { 0 };
    let wr = if cfg.regex { cfg.regex_weight } else { 0 };
    let we = if cfg.ext_funcs { 6 } else { 0 };
    match src.weighted(&[35, 28, wl, wl, wl, wl, wr, we]) {
        0 => gen_cmp(src, root, cur, cfg, fdepth),
        1 => {
            let q = gen_filter_query(src, root, cur, cfg, fdepth);
            Expr::Test(src.chance(1, 4), Box::new(TestE::Q(q)))
        }
        2 => Expr::Paren(false, Box::new(gen_expr(src, root, cur, cfg, fdepth, levels - 1))),
        3 => Expr::Paren(true, Box::new(gen_expr(src, root, cur, cfg, fdepth, levels - 1))),
        4 => {
            let n = 2 + src.weighted(&[80, 20]);
            Expr::And(
                (0..n)
                    .map(|_| match gen_expr(src, root, cur, cfg, fdepth, levels - 1) {
                        e @ (Expr::Or(_) | Expr::And(_)) => Expr::Paren(false, Box::new(e)),
                        e => e,
                    })
                    .collect(),
            )
        }
        5 => {
            let n = 2 + src.weighted(&[80, 20]);
            Expr::Or(
                (0..n)
                    .map(|_| match gen_expr(src, root, cur, cfg, fdepth, levels - 1) {
                        e @ Expr::Or(_) => Expr::Paren(false, Box::new(e)),
                        e => e,
                    })
                    .collect(),
            )
        }
        6 => {
            let f = gen_regex_test(src, root, cur, cfg);
            Expr::Test(src.chance(1, 4), Box::new(TestE::F(f)))
        }
        _ => {
            let f = gen_ext_test(src, root, cur, cfg);
            Expr::Test(src.chance(1, 4), Box::new(TestE::F(f)))
        }
    }
}

/// number of `S` positions a query has, so that a blank vector of the right size can be drawn
pub fn blank_slots(q: &Query) -> usize {
    let empty: Vec<String> = vec![];
    let mut b = Blanks::new(&empty);
    let _ = render(q, &mut b);
    b.used()
}

pub fn render_with_blanks(src: &mut Src, q: &Query, blanks: bool) -> String {
    if blanks {
        let n = blank_slots(q);
        let v = gen_blanks(src, n);
        render(q, &mut Blanks::new(&v))
    } else {
        render_plain(q)
    }
}
