//! Two faithful `Queryable` views of a JSON value that are represented differently from
//! `serde_json::Value` (for C15 and as a second data type for C12).

use crate::json::{Loc, Step, J};
use jsonpath_rust::query::queryable::Queryable;
use jsonpath_rust::JsonPath;
use std::collections::HashMap;

/// objects keep *insertion* order; integers and floats are separate variants and answer only to
/// their own accessor
#[derive(Clone, Debug, PartialEq)]
pub enum V1 {
    Null,
    Bool(bool),
    Int(i64),
    Float(f64),
    Str(String),
    Arr(Vec<V1>),
    Obj(Vec<(String, V1)>),
}

/// `Default` is a bound of the trait, not an accessor: it need not be the null value
impl Default for V1 {
    fn default() -> Self {
        V1::Str("<default>".to_string())
    }
}

fn strip_quotes(key: &str) -> &str {
    if key.len() >= 2 && key.starts_with('\'') && key.ends_with('\'') {
        key.trim_matches('\'')
    } else if key.len() >= 2 && key.starts_with('"') && key.ends_with('"') {
        key.trim_matches('"')
    } else if key == "'" || key == "\"" {
        // a lone quote is what `trim_matches` leaves of '' in the reference implementation: empty name
        ""
    } else {
        key
    }
}

impl From<&str> for V1 {
    fn from(s: &str) -> Self {
        V1::Str(s.to_string())
    }
}
impl From<String> for V1 {
    fn from(s: String) -> Self {
        V1::Str(s)
    }
}
impl From<bool> for V1 {
    fn from(b: bool) -> Self {
        V1::Bool(b)
    }
}
impl From<i64> for V1 {
    fn from(i: i64) -> Self {
        V1::Int(i)
    }
}
impl From<f64> for V1 {
    fn from(f: f64) -> Self {
        V1::Float(f)
    }
}
impl From<Vec<V1>> for V1 {
    fn from(v: Vec<V1>) -> Self {
        V1::Arr(v)
    }
}

impl Queryable for V1 {
    fn get(&self, key: &str) -> Option<&Self> {
        let key = strip_quotes(key);
        match self {
            V1::Obj(m) => m.iter().find(|(k, _)| k == key).map(|(_, v)| v),
            _ => None,
        }
    }
    fn as_array(&self) -> Option<&Vec<Self>> {
        match self {
            V1::Arr(a) => Some(a),
            _ => None,
        }
    }
    fn as_object(&self) -> Option<Vec<(&String, &Self)>> {
        match self {
            V1::Obj(m) => Some(m.iter().map(|(k, v)| (k, v)).collect()),
            _ => None,
        }
    }
    fn as_str(&self) -> Option<&str> {
        match self {
            V1::Str(s) => Some(s),
            _ => None,
        }
    }
    fn as_i64(&self) -> Option<i64> {
        match self {
            V1::Int(i) => Some(*i),
            _ => None,
        }
    }
    fn as_f64(&self) -> Option<f64> {
        match self {
            V1::Float(f) => Some(*f),
            _ => None,
        }
    }
    fn as_bool(&self) -> Option<bool> {
        match self {
            V1::Bool(b) => Some(*b),
            _ => None,
        }
    }
    fn null() -> Self {
        V1::Null
    }
}
impl JsonPath for V1 {}

impl V1 {
    pub fn from_j(j: &J) -> V1 {
        match j {
            J::Null => V1::Null,
            J::Bool(b) => V1::Bool(*b),
            J::Int(i) => V1::Int(*i),
            J::Float(f) => V1::Float(*f),
            J::Str(s) => V1::Str(s.clone()),
            J::Arr(a) => V1::Arr(a.iter().map(V1::from_j).collect()),
            J::Obj(m) => V1::Obj(m.iter().map(|(k, v)| (k.clone(), V1::from_j(v))).collect()),
        }
    }
    pub fn to_j(&self) -> J {
        match self {
            V1::Null => J::Null,
            V1::Bool(b) => J::Bool(*b),
            V1::Int(i) => J::Int(*i),
            V1::Float(f) => J::Float(*f),
            V1::Str(s) => J::Str(s.clone()),
            V1::Arr(a) => J::Arr(a.iter().map(|x| x.to_j()).collect()),
            V1::Obj(m) => J::Obj(m.iter().map(|(k, v)| (k.clone(), v.to_j())).collect()),
        }
    }
    pub fn node_map(&self) -> HashMap<usize, Loc> {
        fn go(v: &V1, cur: &mut Loc, out: &mut HashMap<usize, Loc>) {
            out.insert(v as *const V1 as usize, cur.clone());
            match v {
                V1::Arr(a) => {
                    for (i, x) in a.iter().enumerate() {
                        cur.push(Step::Idx(i));
                        go(x, cur, out);
                        cur.pop();
                    }
                }
                V1::Obj(m) => {
                    for (k, x) in m {
                        cur.push(Step::Key(k.clone()));
                        go(x, cur, out);
                        cur.pop();
                    }
                }
                _ => {}
            }
        }
        let mut out = HashMap::new();
        go(self, &mut vec![], &mut out);
        out
    }
}

/// a single number variant (f64), members kept sorted, equality by value
#[derive(Clone)]
pub enum V2 {
    Nil,
    B(bool),
    N(f64),
    S(String),
    A(Vec<V2>),
    O(std::collections::BTreeMap<String, V2>),
}

impl Default for V2 {
    fn default() -> Self {
        V2::N(-1.0)
    }
}

/// `Debug` is a bound of the trait, not an accessor: this one does not show the content
impl std::fmt::Debug for V2 {
    fn fmt(&self, f: &mut std::fmt::Formatter<'_>) -> std::fmt::Result {
        write!(f, "V2(..)")
    }
}

impl PartialEq for V2 {
    fn eq(&self, o: &V2) -> bool {
        match (self, o) {
            (V2::Nil, V2::Nil) => true,
            (V2::B(a), V2::B(b)) => a == b,
            (V2::N(a), V2::N(b)) => a == b,
            (V2::S(a), V2::S(b)) => a == b,
            (V2::A(a), V2::A(b)) => a == b,
            (V2::O(a), V2::O(b)) => a == b,
            _ => false,
        }
    }
}

impl From<&str> for V2 {
    fn from(s: &str) -> Self {
        V2::S(s.to_string())
    }
}
impl From<String> for V2 {
    fn from(s: String) -> Self {
        V2::S(s)
    }
}
impl From<bool> for V2 {
    fn from(b: bool) -> Self {
        V2::B(b)
    }
}
impl From<i64> for V2 {
    fn from(i: i64) -> Self {
        V2::N(i as f64)
    }
}
impl From<f64> for V2 {
    fn from(f: f64) -> Self {
        V2::N(f)
    }
}
impl From<Vec<V2>> for V2 {
    fn from(v: Vec<V2>) -> Self {
        V2::A(v)
    }
}

impl Queryable for V2 {
    fn get(&self, key: &str) -> Option<&Self> {
        let key = strip_quotes(key);
        match self {
            V2::O(m) => m.get(key),
            _ => None,
        }
    }
    fn as_array(&self) -> Option<&Vec<Self>> {
        match self {
            V2::A(a) => Some(a),
            _ => None,
        }
    }
    fn as_object(&self) -> Option<Vec<(&String, &Self)>> {
        match self {
            V2::O(m) => Some(m.iter().collect()),
            _ => None,
        }
    }
    fn as_str(&self) -> Option<&str> {
        match self {
            V2::S(s) => Some(s),
            _ => None,
        }
    }
    fn as_i64(&self) -> Option<i64> {
        None
    }
    fn as_f64(&self) -> Option<f64> {
        match self {
            V2::N(f) => Some(*f),
            _ => None,
        }
    }
    fn as_bool(&self) -> Option<bool> {
        match self {
            V2::B(b) => Some(*b),
            _ => None,
        }
    }
    fn null() -> Self {
        V2::Nil
    }
}
impl JsonPath for V2 {}

impl V2 {
    pub fn from_j(j: &J) -> V2 {
        match j {
            J::Null => V2::Nil,
            J::Bool(b) => V2::B(*b),
            J::Int(i) => V2::N(*i as f64),
            J::Float(f) => V2::N(*f),
            J::Str(s) => V2::S(s.clone()),
            J::Arr(a) => V2::A(a.iter().map(V2::from_j).collect()),
            J::Obj(m) => V2::O(m.iter().map(|(k, v)| (k.clone(), V2::from_j(v))).collect()),
        }
    }
    pub fn to_j(&self) -> J {
        match self {
            V2::Nil => J::Null,
            V2::B(b) => J::Bool(*b),
            V2::N(f) => J::Float(*f),
            V2::S(s) => J::Str(s.clone()),
            V2::A(a) => J::Arr(a.iter().map(|x| x.to_j()).collect()),
            V2::O(m) => J::Obj(m.iter().map(|(k, v)| (k.clone(), v.to_j())).collect()),
        }
    }
}
