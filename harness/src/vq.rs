//! Two faithful `Queryable` views of a JSON value that are represented differently from
//! `serde_json::Value` (for C15 and as a second data type for C12).

use crate::json::{Loc, Step, J};
use jsonpath_rust::query::queryable::Queryable;
use jsonpath_rust::JsonPath;
use std::collections::HashMap;

/// objects keep *insertion* order; integers and floats are separate variants and answer only to
/// their own accessor
/// `V1` strips the quotes of a key greedily, the way the implementation for `Value` does; `V3` is the same
/// type except that `get` strips exactly one enclosing pair
pub type V1 = VX<false>;
pub type V3 = VX<true>;

#[derive(Clone, Debug, PartialEq)]
pub enum VX<const ONE_PAIR: bool> {
    Null,
    Bool(bool),
    Int(i64),
    /// an integer above i64::MAX: not an i64, so the only accessor that can show it is `as_f64`
    UInt(u64),
    Float(f64),
    Str(String),
    Arr(Vec<VX<ONE_PAIR>>),
    Obj(Vec<(String, VX<ONE_PAIR>)>),
}

/// `Default` is a bound of the trait, not an accessor: it need not be the null value
impl<const ONE_PAIR: bool> Default for VX<ONE_PAIR> {
    fn default() -> Self {
        Self::Str("<default>".to_string())
    }
}

fn strip_quotes(key: &str) -> &str {
    if key.len() >= 2 && key.starts_with('\'') && key.ends_with('\'') {
        key.trim_matches('\'')
    } else if key.len() >= 2 && key.starts_with('"') && key.ends_with('"') {
        key.trim_matches('"')
    } else if key == "'" || key == "\"" {
        // a lone quote is what `trim_matches` leaves of '' in the reference implementation: empty name
        ""
    } else {
        key
    }
}

/// the other reading of "handle enclosing single and double quotes": exactly one enclosing pair goes.
/// For every valid query whose name does not end with the quote character it is written in, both
/// readings give the same name.
fn strip_one_pair(key: &str) -> &str {
    let n = key.len();
    if n >= 2 && (key.starts_with('\'') && key.ends_with('\'') || key.starts_with('"') && key.ends_with('"')) {
        &key[1..n - 1]
    } else {
        key
    }
}

impl<const ONE_PAIR: bool> From<&str> for VX<ONE_PAIR> {
    fn from(s: &str) -> Self {
        Self::Str(s.to_string())
    }
}
impl<const ONE_PAIR: bool> From<String> for VX<ONE_PAIR> {
    fn from(s: String) -> Self {
        Self::Str(s)
    }
}
impl<const ONE_PAIR: bool> From<bool> for VX<ONE_PAIR> {
    fn from(b: bool) -> Self {
        Self::Bool(b)
    }
}
impl<const ONE_PAIR: bool> From<i64> for VX<ONE_PAIR> {
    fn from(i: i64) -> Self {
        Self::Int(i)
    }
}
impl<const ONE_PAIR: bool> From<f64> for VX<ONE_PAIR> {
    fn from(f: f64) -> Self {
        Self::Float(f)
    }
}
impl<const ONE_PAIR: bool> From<Vec<VX<ONE_PAIR>>> for VX<ONE_PAIR> {
    fn from(v: Vec<VX<ONE_PAIR>>) -> Self {
        Self::Arr(v)
    }
}

impl<const ONE_PAIR: bool> Queryable for VX<ONE_PAIR> {
    fn get(&self, key: &str) -> Option<&Self> {
        let key = if ONE_PAIR { strip_one_pair(key) } else { strip_quotes(key) };
        match self {
            Self::Obj(m) => m.iter().find(|(k, _)| k == key).map(|(_, v)| v),
            _ => None,
        }
    }
    fn as_array(&self) -> Option<&Vec<Self>> {
        match self {
            Self::Arr(a) => Some(a),
            _ => None,
        }
    }
    fn as_object(&self) -> Option<Vec<(&String, &Self)>> {
        match self {
            Self::Obj(m) => Some(m.iter().map(|(k, v)| (k, v)).collect()),
            _ => None,
        }
    }
    fn as_str(&self) -> Option<&str> {
        match self {
            Self::Str(s) => Some(s),
            _ => None,
        }
    }
    fn as_i64(&self) -> Option<i64> {
        match self {
            Self::Int(i) => Some(*i),
            _ => None,
        }
    }
    fn as_f64(&self) -> Option<f64> {
        match self {
            Self::Float(f) => Some(*f),
            Self::UInt(u) => Some(*u as f64),
            _ => None,
        }
    }
    fn as_bool(&self) -> Option<bool> {
        match self {
            Self::Bool(b) => Some(*b),
            _ => None,
        }
    }
    fn null() -> Self {
        Self::Null
    }
    /// the five documented extension functions, written the way the implementation for `Value` writes
    /// them: membership by the `==` of the data type (here the derived one: an integer is not a float,
    /// -0.0 is 0.0, arrays and objects structurally)
    fn extension_custom(name: &str, args: Vec<std::borrow::Cow<Self>>) -> Self {
        let arr = |v: &Self| match v {
            Self::Arr(a) => Some(a.clone()),
            _ => None,
        };
        match (name, args.as_slice()) {
            ("in", [l, r]) => arr(r).map_or(Self::Null, |e| Self::Bool(e.iter().any(|x| x == l.as_ref()))),
            ("nin", [l, r]) => arr(r).map_or(Self::Null, |e| Self::Bool(!e.iter().any(|x| x == l.as_ref()))),
            ("none_of", [l, r]) => match (arr(l), arr(r)) {
                (Some(a), Some(b)) => Self::Bool(a.iter().all(|x| !b.iter().any(|y| x == y))),
                _ => Self::Null,
            },
            ("any_of", [l, r]) => match (arr(l), arr(r)) {
                (Some(a), Some(b)) => Self::Bool(a.iter().any(|x| b.iter().any(|y| x == y))),
                _ => Self::Null,
            },
            ("subset_of", [l, r]) => match (arr(l), arr(r)) {
                (Some(a), Some(b)) => Self::Bool(a.iter().all(|x| b.iter().any(|y| x == y))),
                _ => Self::Null,
            },
            _ => Self::Null,
        }
    }
}
impl<const ONE_PAIR: bool> JsonPath for VX<ONE_PAIR> {}

impl<const ONE_PAIR: bool> VX<ONE_PAIR> {
    pub fn from_j(j: &J) -> Self {
        match j {
            J::Null => Self::Null,
            J::Bool(b) => Self::Bool(*b),
            J::Int(i) => Self::Int(*i),
            J::UInt(u) => Self::UInt(*u),
            J::Float(f) => Self::Float(*f),
            J::Str(s) => Self::Str(s.clone()),
            J::Arr(a) => Self::Arr(a.iter().map(Self::from_j).collect()),
            J::Obj(m) => Self::Obj(m.iter().map(|(k, v)| (k.clone(), Self::from_j(v))).collect()),
        }
    }
    pub fn to_j(&self) -> J {
        match self {
            Self::Null => J::Null,
            Self::Bool(b) => J::Bool(*b),
            Self::Int(i) => J::Int(*i),
            Self::UInt(u) => J::UInt(*u),
            Self::Float(f) => J::Float(*f),
            Self::Str(s) => J::Str(s.clone()),
            Self::Arr(a) => J::Arr(a.iter().map(|x| x.to_j()).collect()),
            Self::Obj(m) => J::Obj(m.iter().map(|(k, v)| (k.clone(), v.to_j())).collect()),
        }
    }
    pub fn node_map(&self) -> HashMap<usize, Loc> {
        fn go<const P: bool>(v: &VX<P>, cur: &mut Loc, out: &mut HashMap<usize, Loc>) {
            out.insert(v as *const VX<P> as usize, cur.clone());
            match v {
                VX::Arr(a) => {
                    for (i, x) in a.iter().enumerate() {
                        cur.push(Step::Idx(i));
                        go(x, cur, out);
                        cur.pop();
                    }
                }
                VX::Obj(m) => {
                    for (k, x) in m {
                        cur.push(Step::Key(k.clone()));
                        go(x, cur, out);
                        cur.pop();
                    }
                }
                _ => {}
            }
        }
        let mut out = HashMap::new();
        go(self, &mut vec![], &mut out);
        out
    }
}

/// a single number variant (f64), members kept sorted, equality by value
#[derive(Clone)]
pub enum V2 {
    Nil,
    B(bool),
    N(f64),
    S(String),
    A(Vec<V2>),
    O(std::collections::BTreeMap<String, V2>),
}

impl Default for V2 {
    fn default() -> Self {
        V2::N(-1.0)
    }
}

/// `Debug` is a bound of the trait, not an accessor: this one does not show the content
impl std::fmt::Debug for V2 {
    fn fmt(&self, f: &mut std::fmt::Formatter<'_>) -> std::fmt::Result {
        write!(f, "V2(..)")
    }
}

impl PartialEq for V2 {
    fn eq(&self, o: &V2) -> bool {
        match (self, o) {
            (V2::Nil, V2::Nil) => true,
            (V2::B(a), V2::B(b)) => a == b,
            (V2::N(a), V2::N(b)) => a == b,
            (V2::S(a), V2::S(b)) => a == b,
            (V2::A(a), V2::A(b)) => a == b,
            (V2::O(a), V2::O(b)) => a == b,
            _ => false,
        }
    }
}

impl From<&str> for V2 {
    fn from(s: &str) -> Self {
        V2::S(s.to_string())
    }
}
impl From<String> for V2 {
    fn from(s: String) -> Self {
        V2::S(s)
    }
}
impl From<bool> for V2 {
    fn from(b: bool) -> Self {
        V2::B(b)
    }
}
impl From<i64> for V2 {
    fn from(i: i64) -> Self {
        V2::N(i as f64)
    }
}
impl From<f64> for V2 {
    /// like serde_json, this type has no infinities or NaN: they become its null
    fn from(f: f64) -> Self {
        if f.is_finite() {
            V2::N(f)
        } else {
            V2::Nil
        }
    }
}
impl From<Vec<V2>> for V2 {
    fn from(v: Vec<V2>) -> Self {
        V2::A(v)
    }
}

impl Queryable for V2 {
    fn get(&self, key: &str) -> Option<&Self> {
        let key = strip_quotes(key);
        match self {
            V2::O(m) => m.get(key),
            _ => None,
        }
    }
    fn as_array(&self) -> Option<&Vec<Self>> {
        match self {
            V2::A(a) => Some(a),
            _ => None,
        }
    }
    fn as_object(&self) -> Option<Vec<(&String, &Self)>> {
        match self {
            V2::O(m) => Some(m.iter().collect()),
            _ => None,
        }
    }
    fn as_str(&self) -> Option<&str> {
        match self {
            V2::S(s) => Some(s),
            _ => None,
        }
    }
    fn as_i64(&self) -> Option<i64> {
        None
    }
    fn as_f64(&self) -> Option<f64> {
        match self {
            V2::N(f) => Some(*f),
            _ => None,
        }
    }
    fn as_bool(&self) -> Option<bool> {
        match self {
            V2::B(b) => Some(*b),
            _ => None,
        }
    }
    fn null() -> Self {
        V2::Nil
    }
}
impl JsonPath for V2 {}

impl V2 {
    pub fn from_j(j: &J) -> V2 {
        match j {
            J::Null => V2::Nil,
            J::Bool(b) => V2::B(*b),
            J::Int(i) => V2::N(*i as f64),
            J::UInt(u) => V2::N(*u as f64),
            J::Float(f) => V2::N(*f),
            J::Str(s) => V2::S(s.clone()),
            J::Arr(a) => V2::A(a.iter().map(V2::from_j).collect()),
            J::Obj(m) => V2::O(m.iter().map(|(k, v)| (k.clone(), V2::from_j(v))).collect()),
        }
    }
    pub fn to_j(&self) -> J {
        match self {
            V2::Nil => J::Null,
            V2::B(b) => J::Bool(*b),
            V2::N(f) => J::Float(*f),
            V2::S(s) => J::Str(s.clone()),
            V2::A(a) => J::Arr(a.iter().map(|x| x.to_j()).collect()),
            V2::O(m) => J::Obj(m.iter().map(|(k, v)| (k.clone(), v.to_j())).collect()),
        }
    }
}

// ------------------------------------------------------------------------------------------------

/// A view whose equal sub-documents are stored once and shared (`Arc`, so that the type stays `Send + Sync` like `serde_json::Value` - a library that grows such a bound on the trait must still be checkable): the same container is reached from
/// several parents, so its children have one address however they are reached.  Faithful as far as the
/// trait goes - every accessor answers as for the plain tree.
#[derive(Clone, Debug, PartialEq)]
pub struct V4(pub std::sync::Arc<N4>);

#[derive(Clone, Debug, PartialEq)]
pub enum N4 {
    Null,
    Bool(bool),
    Int(i64),
    UInt(u64),
    Float(f64),
    Str(String),
    Arr(Vec<V4>),
    Obj(Vec<(String, V4)>),
}

impl Default for V4 {
    fn default() -> Self {
        V4(std::sync::Arc::new(N4::Str("<default>".to_string())))
    }
}
impl From<&str> for V4 {
    fn from(s: &str) -> Self {
        V4(std::sync::Arc::new(N4::Str(s.to_string())))
    }
}
impl From<String> for V4 {
    fn from(s: String) -> Self {
        V4(std::sync::Arc::new(N4::Str(s)))
    }
}
impl From<bool> for V4 {
    fn from(b: bool) -> Self {
        V4(std::sync::Arc::new(N4::Bool(b)))
    }
}
impl From<i64> for V4 {
    fn from(i: i64) -> Self {
        V4(std::sync::Arc::new(N4::Int(i)))
    }
}
impl From<f64> for V4 {
    fn from(f: f64) -> Self {
        V4(std::sync::Arc::new(N4::Float(f)))
    }
}
impl From<Vec<V4>> for V4 {
    fn from(v: Vec<V4>) -> Self {
        V4(std::sync::Arc::new(N4::Arr(v)))
    }
}

impl Queryable for V4 {
    fn get(&self, key: &str) -> Option<&Self> {
        let key = strip_quotes(key);
        match &*self.0 {
            N4::Obj(m) => m.iter().find(|(k, _)| k == key).map(|(_, v)| v),
            _ => None,
        }
    }
    fn as_array(&self) -> Option<&Vec<Self>> {
        match &*self.0 {
            N4::Arr(a) => Some(a),
            _ => None,
        }
    }
    fn as_object(&self) -> Option<Vec<(&String, &Self)>> {
        match &*self.0 {
            N4::Obj(m) => Some(m.iter().map(|(k, v)| (k, v)).collect()),
            _ => None,
        }
    }
    fn as_str(&self) -> Option<&str> {
        match &*self.0 {
            N4::Str(s) => Some(s),
            _ => None,
        }
    }
    fn as_i64(&self) -> Option<i64> {
        match &*self.0 {
            N4::Int(i) => Some(*i),
            _ => None,
        }
    }
    fn as_f64(&self) -> Option<f64> {
        match &*self.0 {
            N4::Float(f) => Some(*f),
            N4::UInt(u) => Some(*u as f64),
            N4::Int(i) => Some(*i as f64),
            _ => None,
        }
    }
    fn as_bool(&self) -> Option<bool> {
        match &*self.0 {
            N4::Bool(b) => Some(*b),
            _ => None,
        }
    }
    fn null() -> Self {
        V4(std::sync::Arc::new(N4::Null))
    }
}
impl JsonPath for V4 {}

impl V4 {
    /// equal sub-documents (by their JSON text) become one shared node
    pub fn from_j(j: &J) -> V4 {
        fn go(j: &J, pool: &mut HashMap<String, V4>) -> V4 {
            let key = format!("{:?}", j);
            if let Some(v) = pool.get(&key) {
                return v.clone();
            }
            let n = match j {
                J::Null => N4::Null,
                J::Bool(b) => N4::Bool(*b),
                J::Int(i) => N4::Int(*i),
                J::UInt(u) => N4::UInt(*u),
                J::Float(f) => N4::Float(*f),
                J::Str(s) => N4::Str(s.clone()),
                J::Arr(a) => N4::Arr(a.iter().map(|x| go(x, pool)).collect()),
                J::Obj(m) => N4::Obj(m.iter().map(|(k, v)| (k.clone(), go(v, pool))).collect()),
            };
            let v = V4(std::sync::Arc::new(n));
            pool.insert(key, v.clone());
            v
        }
        go(j, &mut HashMap::new())
    }
    pub fn to_j(&self) -> J {
        match &*self.0 {
            N4::Null => J::Null,
            N4::Bool(b) => J::Bool(*b),
            N4::Int(i) => J::Int(*i),
            N4::UInt(u) => J::UInt(*u),
            N4::Float(f) => J::Float(*f),
            N4::Str(s) => J::Str(s.clone()),
            N4::Arr(a) => J::Arr(a.iter().map(|x| x.to_j()).collect()),
            N4::Obj(m) => J::Obj(m.iter().map(|(k, v)| (k.clone(), v.to_j())).collect()),
        }
    }
    /// number of container nodes that are reachable by more than one route
    pub fn shared_containers(&self) -> usize {
        fn go(v: &V4, seen: &mut HashMap<usize, usize>) {
            if matches!(&*v.0, N4::Arr(_) | N4::Obj(_)) {
                *seen.entry(std::sync::Arc::as_ptr(&v.0) as usize).or_insert(0) += 1;
            }
            match &*v.0 {
                N4::Arr(a) => a.iter().for_each(|x| go(x, seen)),
                N4::Obj(m) => m.iter().for_each(|(_, x)| go(x, seen)),
                _ => {}
            }
        }
        let mut seen = HashMap::new();
        go(self, &mut seen);
        seen.values().filter(|n| **n > 1).count()
    }
}
