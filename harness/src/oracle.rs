//! Reference semantics: a deliberately naive transcription of RFC 9535 sections 2.3 - 2.5 and 2.7.
//! `Quirks` switches reproduce *listed open findings* exactly (see KNOWN_FINDINGS.txt); with all
//! switches off this is the strict RFC semantics.

use crate::ast::*;
use crate::json::*;
use crate::regexo;

#[derive(Clone, Copy, Debug, Default, PartialEq, Eq)]
pub struct Quirks {
    /// K1: a multi-selector segment is evaluated selector-major over the whole input list
    pub union_selector_major: bool,
    /// K2: a path step produced by a name selector copies the selector's source text
    pub path_step_from_selector_text: bool,
    /// K3: escape sequences in name selectors are not decoded (library key derivation is modelled)
    pub name_escapes_raw: bool,
    /// K4: escape sequences in string literals are not decoded
    pub literal_escapes_raw: bool,
    /// K5a: regex patterns are mangled (`\\\\` -> `\\`, surrounding quotes trimmed)
    pub regex_mangle: bool,
    /// K5b: `.` matches CR
    pub dot_matches_cr: bool,
    /// not a finding: a visiting order RFC 9535 2.5.2.2 also permits (breadth first); used only to
    /// accept a valid alternative order
    pub desc_breadth_first: bool,
}

pub const QUIRK_NAMES: [&str; 6] = [
    "UNION_SELECTOR_MAJOR",
    "PATH_STEP_FROM_SELECTOR_TEXT",
    "NAME_ESCAPES_RAW",
    "LITERAL_ESCAPES_RAW",
    "REGEX_MANGLE",
    "DOT_MATCHES_CR",
];

impl Quirks {
    pub fn strict() -> Quirks {
        Quirks::default()
    }
    pub fn from_bits(b: u32) -> Quirks {
        Quirks {
            union_selector_major: b & 1 != 0,
            path_step_from_selector_text: b & 2 != 0,
            name_escapes_raw: b & 4 != 0,
            literal_escapes_raw: b & 8 != 0,
            regex_mangle: b & 16 != 0,
            dot_matches_cr: b & 32 != 0,
            desc_breadth_first: false,
        }
    }
    pub fn names(b: u32) -> Vec<&'static str> {
        (0..6).filter(|i| b & (1 << i) != 0).map(|i| QUIRK_NAMES[i]).collect()
    }
}

#[derive(Clone, Debug, PartialEq)]
pub struct PStep {
    pub step: Step,
    /// the source text of the name selector that produced this step (quotes included), if any
    pub via: Option<String>,
}

#[derive(Clone, Debug)]
pub struct Node<'a> {
    pub steps: Vec<PStep>,
    pub v: &'a J,
}

impl<'a> Node<'a> {
    pub fn loc(&self) -> Loc {
        self.steps.iter().map(|p| p.step.clone()).collect()
    }
    /// the path the library is expected to report under the given quirks
    pub fn path(&self, k: &Quirks) -> String {
        let mut s = String::from("$");
        for p in &self.steps {
            match (&p.step, &p.via) {
                (Step::Idx(i), _) => s.push_str(&format!("[{}]", i)),
                (Step::Key(_), Some(text)) if k.path_step_from_selector_text => {
                    if text.starts_with('\'') && text.ends_with('\'') {
                        s.push_str(&format!("[{}]", text));
                    } else {
                        s.push_str(&format!("['{}']", text));
                    }
                }
                (Step::Key(key), _) => s.push_str(&format!("['{}']", normal_name(key))),
            }
        }
        s
    }
}

thread_local! {
    /// remaining node-steps of the naive reference evaluator for the current evaluation
    static BUDGET: std::cell::Cell<i64> = std::cell::Cell::new(i64::MAX);
    static GAVE_UP: std::cell::Cell<bool> = std::cell::Cell::new(false);
}

/// node-steps one top-level evaluation may take before it is abandoned (the result is then empty and
/// `take_gave_up()` is true: the caller must discard the case)
pub const EVAL_BUDGET: i64 = 200_000;

/// fresh budget, flag cleared (start of every generated case)
pub fn reset() {
    BUDGET.with(|b| b.set(EVAL_BUDGET));
    GAVE_UP.with(|g| g.set(false));
}

pub fn take_gave_up() -> bool {
    GAVE_UP.with(|g| g.replace(false))
}

fn spend(n: usize) -> bool {
    BUDGET.with(|b| {
        let left = b.get() - n as i64 - 1;
        b.set(left);
        if left < 0 {
            GAVE_UP.with(|g| g.set(true));
            false
        } else {
            true
        }
    })
}

pub fn eval<'a>(q: &Query, root: &'a J, k: &Quirks) -> Vec<Node<'a>> {
    BUDGET.with(|b| b.set(EVAL_BUDGET));
    let start = Node {
        steps: vec![],
        v: root,
    };
    eval_segs(&q.segs, vec![start], root, k)
}

/// number of input nodes each segment of `q` receives under the strict semantics
pub fn input_sizes(q: &Query, root: &J) -> Vec<usize> {
    let k = Quirks::strict();
    let mut cur = vec![Node {
        steps: vec![],
        v: root,
    }];
    let mut out = vec![];
    for s in &q.segs {
        out.push(cur.len());
        cur = apply_seg(s, cur, root, &k);
    }
    out
}

fn eval_segs<'a>(segs: &[Seg], mut cur: Vec<Node<'a>>, root: &'a J, k: &Quirks) -> Vec<Node<'a>> {
    for s in segs {
        cur = apply_seg(s, cur, root, k);
    }
    cur
}

fn children<'a>(n: &Node<'a>) -> Vec<Node<'a>> {
    match n.v {
        J::Arr(a) => a
            .iter()
            .enumerate()
            .map(|(i, x)| child(n, Step::Idx(i), None, x))
            .collect(),
        J::Obj(m) => m
            .iter()
            .map(|(key, x)| child(n, Step::Key(key.clone()), None, x))
            .collect(),
        _ => vec![],
    }
}

fn child<'a>(n: &Node<'a>, step: Step, via: Option<String>, v: &'a J) -> Node<'a> {
    // copying the location costs in proportion to its length: deep documents pay for it out of the same
    // budget, so that a reference evaluation stays in the range of milliseconds there too
    let _ = spend(n.steps.len() / 16);
    let mut steps = n.steps.clone();
    steps.push(PStep { step, via });
    Node { steps, v }
}

fn descendants_or_self<'a>(n: &Node<'a>, out: &mut Vec<Node<'a>>) {
    if !spend(1) {
        return;
    }
    out.push(n.clone());
    for c in children(n) {
        descendants_or_self(&c, out);
    }
}

fn apply_seg<'a>(s: &Seg, input: Vec<Node<'a>>, root: &'a J, k: &Quirks) -> Vec<Node<'a>> {
    if !spend(input.len()) {
        return vec![];
    }
    let input = if s.desc {
        let mut v = vec![];
        for n in &input {
            if k.desc_breadth_first {
                let mut level = vec![n.clone()];
                while !level.is_empty() {
                    let mut next = vec![];
                    for x in &level {
                        next.extend(children(x));
                    }
                    v.extend(level);
                    level = next;
                }
            } else {
                descendants_or_self(n, &mut v);
            }
        }
        v
    } else {
        input
    };
    let mut out = vec![];
    if k.union_selector_major && s.sels.len() > 1 {
        for sel in &s.sels {
            for n in &input {
                apply_sel(sel, s.dot, n, root, k, &mut out);
            }
        }
    } else {
        for n in &input {
            for sel in &s.sels {
                apply_sel(sel, s.dot, n, root, k, &mut out);
            }
        }
    }
    out
}

/// the key the library derives from a name selector's source text (model of finding K3)
pub fn lib_key(text: &str) -> String {
    // port of `normalize_json_key`
    let mut result = String::new();
    let mut chars = text.chars().peekable();
    while let Some(c) = chars.next() {
        if c == '\\' {
            if let Some(&next) = chars.peek() {
                match next {
                    '\\' => {
                        result.push('\\');
                        chars.next();
                    }
                    '/' => {
                        result.push('/');
                        chars.next();
                    }
                    '\'' | '"' | 'b' | 'f' | 'n' | 'r' | 't' | 'u' => {
                        result.push('\\');
                        result.push(next);
                        chars.next();
                    }
                    _ => result.push('\\'),
                }
            } else {
                result.push('\\');
            }
        } else {
            result.push(c);
        }
    }
    // port of the quote stripping in `Queryable::get` for `Value`
    let key = result.as_str();
    let key = if key.starts_with('\'') && key.ends_with('\'') {
        key.trim_matches('\'')
    } else if key.starts_with('"') && key.ends_with('"') {
        key.trim_matches('"')
    } else {
        key
    };
    key.to_string()
}

fn name_text(n: &StrLit, dot: bool) -> String {
    if dot && is_shorthand(&n.val) {
        n.val.clone()
    } else {
        n.text()
    }
}

fn select_name<'a>(name: &StrLit, dot: bool, n: &Node<'a>, k: &Quirks, out: &mut Vec<Node<'a>>) {
    if let J::Obj(m) = n.v {
        let text = name_text(name, dot);
        let key = if k.name_escapes_raw {
            lib_key(&text)
        } else {
            name.val.clone()
        };
        if let Some((kk, v)) = m.iter().find(|(k2, _)| *k2 == key) {
            out.push(child(n, Step::Key(kk.clone()), Some(text), v));
        }
    }
}

fn select_index<'a>(i: i64, n: &Node<'a>, out: &mut Vec<Node<'a>>) {
    if let J::Arr(a) = n.v {
        let len = a.len() as i128;
        let i = i as i128;
        let j = if i >= 0 { i } else { len + i };
        if j >= 0 && j < len {
            out.push(child(n, Step::Idx(j as usize), None, &a[j as usize]));
        }
    }
}

/// RFC 9535 2.3.4.2.2, in i128
pub fn slice_indices(len: usize, start: Option<i64>, end: Option<i64>, step: Option<i64>) -> Vec<usize> {
    let len = len as i128;
    let step = step.unwrap_or(1) as i128;
    if step == 0 {
        return vec![];
    }
    let (dstart, dend) = if step >= 0 { (0, len) } else { (len - 1, -len - 1) };
    let start = start.map(|x| x as i128).unwrap_or(dstart);
    let end = end.map(|x| x as i128).unwrap_or(dend);
    let norm = |i: i128| if i >= 0 { i } else { len + i };
    let n_start = norm(start);
    let n_end = norm(end);
    let (lower, upper) = if step >= 0 {
        (n_start.max(0).min(len), n_end.max(0).min(len))
    } else {
        (n_end.max(-1).min(len - 1), n_start.max(-1).min(len - 1))
    };
    let mut out = vec![];
    if step > 0 {
        let mut i = lower;
        while i < upper {
            out.push(i as usize);
            i += step;
        }
    } else {
        let mut i = upper;
        while lower < i {
            out.push(i as usize);
            i += step;
        }
    }
    out
}

fn apply_sel<'a>(sel: &Sel, dot: bool, n: &Node<'a>, root: &'a J, k: &Quirks, out: &mut Vec<Node<'a>>) {
    match sel {
        Sel::Name(name) => select_name(name, dot, n, k, out),
        Sel::Wild => out.extend(children(n)),
        Sel::Index(i) => select_index(*i, n, out),
        Sel::Slice(st, en, step, _) => {
            if let J::Arr(a) = n.v {
                for i in slice_indices(a.len(), *st, *en, *step) {
                    out.push(child(n, Step::Idx(i), None, &a[i]));
                }
            }
        }
        Sel::Filter(e) => {
            for c in children(n) {
                if !spend(1) {
                    return;
                }
                if truth(e, &c, root, k) {
                    out.push(c);
                }
            }
        }
    }
}

// ------------------------------------------------------------------------------------------------
// filter expressions

pub fn truth<'a>(e: &Expr, cur: &Node<'a>, root: &'a J, k: &Quirks) -> bool {
    match e {
        Expr::Or(xs) => xs.iter().any(|x| truth(x, cur, root, k)),
        Expr::And(xs) => xs.iter().all(|x| truth(x, cur, root, k)),
        Expr::Paren(not, x) => truth(x, cur, root, k) != *not,
        Expr::Cmp(l, op, r) => {
            let a = cmp_value(l, cur, root, k);
            let b = cmp_value(r, cur, root, k);
            compare(a.as_ref(), *op, b.as_ref())
        }
        Expr::Test(not, t) => {
            let v = match t.as_ref() {
                TestE::Q(q) => !eval_filter_query(q, cur, root, k).is_empty(),
                TestE::F(f) => match call(f, cur, root, k) {
                    FnRes::Logical(b) => b,
                    FnRes::Nodes(n) => n > 0,
                    // a ValueType function as a test is not well-typed; callers never generate it
                    FnRes::Value(v) => v.is_some(),
                },
            };
            v != *not
        }
    }
}

pub fn eval_filter_query<'a>(q: &Query, cur: &Node<'a>, root: &'a J, k: &Quirks) -> Vec<Node<'a>> {
    let start = if q.abs {
        Node {
            steps: vec![],
            v: root,
        }
    } else {
        cur.clone()
    };
    eval_segs(&q.segs, vec![start], root, k)
}

pub fn lit_value(l: &Lit, k: &Quirks) -> J {
    match l {
        Lit::Null => J::Null,
        Lit::Bool(b) => J::Bool(*b),
        Lit::Num(n) => {
            if n.int_text {
                J::Int(n.val as i64)
            } else {
                J::Float(n.val)
            }
        }
        Lit::Str(s) => J::Str(if k.literal_escapes_raw {
            s.raw.clone()
        } else {
            s.val.clone()
        }),
    }
}

/// value of a comparable; `None` is the RFC's Nothing
pub fn cmp_value<'a>(c: &Cmpable, cur: &Node<'a>, root: &'a J, k: &Quirks) -> Option<J> {
    match c {
        Cmpable::Lit(l) => Some(lit_value(l, k)),
        Cmpable::Sing(s) => {
            let r = eval_filter_query(&s.to_query(), cur, root, k);
            if r.len() == 1 {
                Some(r[0].v.clone())
            } else {
                None
            }
        }
        Cmpable::F(f) => match call(f, cur, root, k) {
            FnRes::Value(v) => v,
            FnRes::Logical(_) | FnRes::Nodes(_) => None,
        },
    }
}

/// RFC 9535 2.3.5.2.2
pub fn compare(a: Option<&J>, op: Op, b: Option<&J>) -> bool {
    fn eq(a: Option<&J>, b: Option<&J>) -> bool {
        match (a, b) {
            (None, None) => true,
            (Some(x), Some(y)) => eq_json(x, y),
            _ => false,
        }
    }
    fn lt(a: Option<&J>, b: Option<&J>) -> bool {
        match (a, b) {
            (Some(x), Some(y)) => match (x, y) {
                (J::Str(p), J::Str(q)) => p.chars().lt(q.chars()),
                _ => match (x.num(), y.num()) {
                    (Some(p), Some(q)) => match (x, y) {
                        (J::Int(p), J::Int(q)) => p < q,
                        (J::UInt(p), J::UInt(q)) => p < q,
                        (J::Int(_), J::UInt(_)) => true,
                        (J::UInt(_), J::Int(_)) => false,
                        _ => p < q,
                    },
                    _ => false,
                },
            },
            _ => false,
        }
    }
    match op {
        Op::Eq => eq(a, b),
        Op::Ne => !eq(a, b),
        Op::Lt => lt(a, b),
        Op::Gt => lt(b, a),
        Op::Le => lt(a, b) || eq(a, b),
        Op::Ge => lt(b, a) || eq(a, b),
    }
}

pub enum FnRes {
    Value(Option<J>),
    Logical(bool),
    Nodes(usize),
}

fn arg_value<'a>(a: &Arg, cur: &Node<'a>, root: &'a J, k: &Quirks) -> Option<J> {
    match a {
        Arg::Lit(l) => Some(lit_value(l, k)),
        Arg::Q(q) => {
            let r = eval_filter_query(q, cur, root, k);
            if r.len() == 1 {
                Some(r[0].v.clone())
            } else {
                None
            }
        }
        Arg::F(f) => match call(f, cur, root, k) {
            FnRes::Value(v) => v,
            _ => None,
        },
        Arg::E(_) => None,
    }
}

fn arg_nodes<'a>(a: &Arg, cur: &Node<'a>, root: &'a J, k: &Quirks) -> Vec<Node<'a>> {
    match a {
        Arg::Q(q) => eval_filter_query(q, cur, root, k),
        _ => vec![],
    }
}

/// the pattern text the library hands to its engine (model of K5a), given the value it sees
pub fn collapse_backslashes(p: &str) -> String {
    if p.contains("\\\\") {
        p.replace("\\\\", "\\")
    } else {
        p.to_string()
    }
}

pub fn mangle_pattern(p: &str) -> String {
    let p = collapse_backslashes(p);
    p.trim_matches(|c| c == '\'' || c == '"').to_string()
}

/// what the library's regex engine makes of a pattern text in which a quotation mark still carries the backslash
/// of a JSONPath escape (finding K4: the literal was not decoded): `\'` and `\"` are escaped punctuation there,
/// i.e. the quotation mark itself.  Only used under the quirk model.
pub fn engine_reading_of_escaped_quotes(p: &str) -> String {
    let mut out = String::new();
    let mut it = p.chars().peekable();
    while let Some(c) = it.next() {
        if c == '\\' {
            match it.peek() {
                Some('\'') | Some('"') => {
                    out.push(it.next().unwrap());
                }
                Some(_) => {
                    out.push(c);
                    out.push(it.next().unwrap());
                }
                None => out.push(c),
            }
        } else {
            out.push(c);
        }
    }
    out
}

pub fn regex_fn(subject: Option<J>, pattern: Option<J>, search: bool, k: &Quirks) -> bool {
    match (subject, pattern) {
        (Some(J::Str(s)), Some(J::Str(p))) => {
            // the library's own treatment, exactly: every pattern has its doubled backslashes collapsed; search()
            // works on the pattern with the quotation marks at its ends trimmed; match() only demands that the
            // trimmed pattern be valid on its own and then matches the untrimmed one
            let p = if k.regex_mangle {
                let trimmed = engine_reading_of_escaped_quotes(&mangle_pattern(&p));
                if search {
                    trimmed
                } else {
                    if regexo::parse(&trimmed).is_err() {
                        return false;
                    }
                    engine_reading_of_escaped_quotes(&collapse_backslashes(&p))
                }
            } else {
                p
            };
            match regexo::parse(&p) {
                Ok(re) => {
                    if search {
                        regexo::find(&re, &s, k.dot_matches_cr)
                    } else {
                        regexo::full(&re, &s, k.dot_matches_cr)
                    }
                }
                Err(_) => false,
            }
        }
        _ => false,
    }
}

pub fn call<'a>(f: &Func, cur: &Node<'a>, root: &'a J, k: &Quirks) -> FnRes {
    match (f.name.as_str(), f.args.as_slice()) {
        ("length", [a]) => FnRes::Value(match arg_value(a, cur, root, k) {
            Some(J::Str(s)) => Some(J::Int(s.chars().count() as i64)),
            Some(J::Arr(x)) => Some(J::Int(x.len() as i64)),
            Some(J::Obj(x)) => Some(J::Int(x.len() as i64)),
            _ => None,
        }),
        ("count", [a]) => FnRes::Value(Some(J::Int(arg_nodes(a, cur, root, k).len() as i64))),
        ("value", [a]) => {
            let n = arg_nodes(a, cur, root, k);
            FnRes::Value(if n.len() == 1 { Some(n[0].v.clone()) } else { None })
        }
        ("match", [a, b]) => FnRes::Logical(regex_fn(
            arg_value(a, cur, root, k),
            arg_value(b, cur, root, k),
            false,
            k,
        )),
        ("search", [a, b]) => FnRes::Logical(regex_fn(
            arg_value(a, cur, root, k),
            arg_value(b, cur, root, k),
            true,
            k,
        )),
        (name @ ("in" | "nin" | "none_of" | "any_of" | "subset_of"), [a, b]) => {
            let x = arg_value(a, cur, root, k);
            let y = arg_value(b, cur, root, k);
            FnRes::Logical(extension(name, x.as_ref(), y.as_ref()))
        }
        _ => FnRes::Logical(false),
    }
}

/// the five documented extension functions, as the property C14 states them
pub fn extension(name: &str, a: Option<&J>, b: Option<&J>) -> bool {
    let has = |l: &Vec<J>, x: &J| l.iter().any(|e| eq_json(e, x));
    match (name, a, b) {
        ("in", Some(x), Some(J::Arr(l))) => has(l, x),
        ("nin", Some(x), Some(J::Arr(l))) => !has(l, x),
        ("any_of", Some(J::Arr(p)), Some(J::Arr(q))) => p.iter().any(|x| has(q, x)),
        ("none_of", Some(J::Arr(p)), Some(J::Arr(q))) => !p.iter().any(|x| has(q, x)),
        ("subset_of", Some(J::Arr(p)), Some(J::Arr(q))) => p.iter().all(|x| has(q, x)),
        _ => false,
    }
}
