//! Own regular-expression model: AST, parser for the subset the generators emit, backtracking
//! matcher (`full` and `find`), renderer and generator.  The `regex` crate is never the oracle.
//!
//! Dialect: I-Regexp (RFC 9485) constructs — literals, `.`, classes and negated classes with ranges,
//! groups, alternation, `? * + {n} {n,} {n,m}`, `\p{..}`/`\P{..}` for a few categories, single-character
//! escapes — plus the anchors `^` `$` which the property statement names explicitly ("explicit
//! anchors") and the library's engine supports.  `.` matches anything but LF and CR (RFC 9485).

use crate::src::Src;

#[derive(Clone, Debug, PartialEq)]
pub enum Re {
    Lit(char),
    Dot,
    Class(bool, Vec<CItem>),
    Cat(Vec<Re>),
    Alt(Vec<Re>),
    Rep(Box<Re>, u32, Option<u32>),
    Group(Box<Re>),
    Bol,
    Eol,
    Prop(bool, Cat),
}

#[derive(Clone, Debug, PartialEq)]
pub enum CItem {
    Ch(char),
    Range(char, char),
    Prop(bool, Cat),
}

#[derive(Clone, Copy, Debug, PartialEq)]
pub enum Cat {
    L,
    Lu,
    Ll,
    N,
    Nd,
}

/// Characters whose general category the harness knows by hand; subjects and patterns are built from
/// these only, so `\p{..}` never depends on a Unicode table of the harness.
pub const ALPHABET: &[(char, &str)] = &[
    ('a', "Ll"),
    ('b', "Ll"),
    ('c', "Ll"),
    ('A', "Lu"),
    ('B', "Lu"),
    ('\u{e9}', "Ll"),  // é
    ('\u{c9}', "Lu"),  // É
    ('\u{3b4}', "Ll"), // δ
    ('1', "Nd"),
    ('2', "Nd"),
    ('\u{663}', "Nd"),  // ARABIC-INDIC DIGIT THREE
    ('\u{263a}', "So"), // ☺
    ('\u{1d11e}', "So"), // 𝄞
    (' ', "Zs"),
    ('-', "Pd"),
    ('_', "Pc"),
    ('/', "Po"),
    ('\n', "Cc"),
    ('\r', "Cc"),
    ('\t', "Cc"),
    // the metacharacters of the pattern language as literal characters: written `\(` outside and mostly
    // bare inside a character class, and present in subjects
    ('(', "Ps"),
    (')', "Pe"),
    ('?', "Po"),
    ('.', "Po"),
    ('*', "Po"),
    ('+', "Sm"),
    ('|', "Sm"),
    ('[', "Ps"),
    (']', "Pe"),
    ('{', "Ps"),
    ('}', "Pe"),
    ('^', "Sk"),
    ('$', "Sc"),
    // quotation marks: ordinary characters of a pattern; the library trims them from the ends of a search()
    // pattern (open finding K4), a match() pattern keeps them
    ('\'', "Po"),
    ('"', "Po"),
];

fn cat_of(c: char) -> Option<&'static str> {
    ALPHABET.iter().find(|(x, _)| *x == c).map(|(_, k)| *k)
}

fn in_cat(c: char, k: Cat) -> bool {
    let g = match cat_of(c) {
        Some(g) => g,
        None => {
            // characters outside the alphabet reach the matcher as parts of document strings (words of other
            // scripts) and through replays: letters by the case properties of `char`, ASCII digits
            if c.is_lowercase() {
                "Ll"
            } else if c.is_uppercase() {
                "Lu"
            } else if c.is_ascii_digit() {
                "Nd"
            } else if c.is_alphabetic() {
                // letters without case (CJK, Hebrew, Arabic ...)
                "Lo"
            } else {
                "Xx"
            }
        }
    };
    match k {
        Cat::L => g.starts_with('L'),
        Cat::Lu => g == "Lu",
        Cat::Ll => g == "Ll",
        Cat::N => g.starts_with('N'),
        Cat::Nd => g == "Nd",
    }
}

impl Cat {
    pub fn text(&self) -> &'static str {
        match self {
            Cat::L => "L",
            Cat::Lu => "Lu",
            Cat::Ll => "Ll",
            Cat::N => "N",
            Cat::Nd => "Nd",
        }
    }
    fn parse(s: &str) -> Option<Cat> {
        Some(match s {
            "L" => Cat::L,
            "Lu" => Cat::Lu,
            "Ll" => Cat::Ll,
            "N" => Cat::N,
            "Nd" => Cat::Nd,
            _ => return None,
        })
    }
}

// ------------------------------------------------------------------------------------------------
// parser

const META: &str = ".*+?()|[]{}\\^$";

pub fn parse(p: &str) -> Result<Re, String> {
    let cs: Vec<char> = p.chars().collect();
    let mut i = 0;
    let re = p_alt(&cs, &mut i)?;
    if i != cs.len() {
        return Err(format!("unexpected `{}` at {}", cs[i], i));
    }
    Ok(re)
}

fn p_alt(cs: &[char], i: &mut usize) -> Result<Re, String> {
    let mut alts = vec![p_cat(cs, i)?];
    while *i < cs.len() && cs[*i] == '|' {
        *i += 1;
        alts.push(p_cat(cs, i)?);
    }
    Ok(if alts.len() == 1 {
        alts.pop().unwrap()
    } else {
        Re::Alt(alts)
    })
}

fn p_cat(cs: &[char], i: &mut usize) -> Result<Re, String> {
    let mut items = vec![];
    while *i < cs.len() && cs[*i] != '|' && cs[*i] != ')' {
        let atom = p_atom(cs, i)?;
        let atom = p_quant(cs, i, atom)?;
        items.push(atom);
    }
    Ok(if items.len() == 1 {
        items.pop().unwrap()
    } else {
        Re::Cat(items)
    })
}

fn p_num(cs: &[char], i: &mut usize) -> Option<u32> {
    let st = *i;
    let mut v: u32 = 0;
    while *i < cs.len() && cs[*i].is_ascii_digit() {
        v = v.checked_mul(10)?.checked_add(cs[*i] as u32 - '0' as u32)?;
        *i += 1;
    }
    if *i == st {
        None
    } else {
        Some(v)
    }
}

fn p_quant(cs: &[char], i: &mut usize, atom: Re) -> Result<Re, String> {
    if *i >= cs.len() {
        return Ok(atom);
    }
    let (min, max) = match cs[*i] {
        '*' => {
            *i += 1;
            (0, None)
        }
        '+' => {
            *i += 1;
            (1, None)
        }
        '?' => {
            *i += 1;
            (0, Some(1))
        }
        '{' => {
            *i += 1;
            let a = p_num(cs, i).ok_or("bad quantifier")?;
            let r = if *i < cs.len() && cs[*i] == ',' {
                *i += 1;
                match p_num(cs, i) {
                    Some(b) => (a, Some(b)),
                    None => (a, None),
                }
            } else {
                (a, Some(a))
            };
            if *i >= cs.len() || cs[*i] != '}' {
                return Err("bad quantifier".into());
            }
            *i += 1;
            if let (a, Some(b)) = r {
                if b < a {
                    return Err("quantifier range".into());
                }
            }
            r
        }
        _ => return Ok(atom),
    };
    if matches!(atom, Re::Bol | Re::Eol) {
        return Err("quantified anchor".into());
    }
    // a second quantifier directly after (`a**`, `a+?`) is outside I-Regexp: reject
    if *i < cs.len() && matches!(cs[*i], '*' | '+' | '?' | '{') {
        return Err("double quantifier".into());
    }
    Ok(Re::Rep(Box::new(atom), min, max))
}

fn p_escape(cs: &[char], i: &mut usize) -> Result<Re, String> {
    // cs[*i] is the character after the backslash
    if *i >= cs.len() {
        return Err("trailing backslash".into());
    }
    let c = cs[*i];
    *i += 1;
    match c {
        'n' => Ok(Re::Lit('\n')),
        'r' => Ok(Re::Lit('\r')),
        't' => Ok(Re::Lit('\t')),
        'p' | 'P' => {
            if *i >= cs.len() || cs[*i] != '{' {
                return Err("bad \\p".into());
            }
            *i += 1;
            let st = *i;
            while *i < cs.len() && cs[*i] != '}' {
                *i += 1;
            }
            if *i >= cs.len() {
                return Err("bad \\p".into());
            }
            let name: String = cs[st..*i].iter().collect();
            *i += 1;
            let k = Cat::parse(&name).ok_or("unknown category")?;
            Ok(Re::Prop(c == 'P', k))
        }
        c if META.contains(c) || c == '-' => Ok(Re::Lit(c)),
        _ => Err(format!("unknown escape \\{}", c)),
    }
}

fn p_atom(cs: &[char], i: &mut usize) -> Result<Re, String> {
    let c = cs[*i];
    match c {
        '(' => {
            *i += 1;
            let inner = p_alt(cs, i)?;
            if *i >= cs.len() || cs[*i] != ')' {
                return Err("unbalanced (".into());
            }
            *i += 1;
            Ok(Re::Group(Box::new(inner)))
        }
        '[' => {
            *i += 1;
            let mut neg = false;
            if *i < cs.len() && cs[*i] == '^' {
                neg = true;
                *i += 1;
            }
            let mut items = vec![];
            loop {
                if *i >= cs.len() {
                    return Err("unbalanced [".into());
                }
                if cs[*i] == ']' {
                    if items.is_empty() {
                        return Err("empty class".into());
                    }
                    *i += 1;
                    break;
                }
                let lo = p_class_char(cs, i)?;
                match lo {
                    CItem::Ch(a) if *i + 1 < cs.len() && cs[*i] == '-' && cs[*i + 1] != ']' => {
                        *i += 1;
                        match p_class_char(cs, i)? {
                            CItem::Ch(b) if a <= b => items.push(CItem::Range(a, b)),
                            _ => return Err("bad range".into()),
                        }
                    }
                    x => items.push(x),
                }
            }
            Ok(Re::Class(neg, items))
        }
        '.' => {
            *i += 1;
            Ok(Re::Dot)
        }
        '^' => {
            *i += 1;
            Ok(Re::Bol)
        }
        '$' => {
            *i += 1;
            Ok(Re::Eol)
        }
        '\\' => {
            *i += 1;
            p_escape(cs, i)
        }
        '*' | '+' | '?' | '{' | '}' | ']' => Err(format!("dangling `{}`", c)),
        c => {
            *i += 1;
            Ok(Re::Lit(c))
        }
    }
}

fn p_class_char(cs: &[char], i: &mut usize) -> Result<CItem, String> {
    let c = cs[*i];
    if c == '\\' {
        *i += 1;
        match p_escape(cs, i)? {
            Re::Lit(c) => Ok(CItem::Ch(c)),
            Re::Prop(n, k) => Ok(CItem::Prop(n, k)),
            _ => Err("bad class escape".into()),
        }
    } else if c == '[' {
        Err("nested class".into())
    } else {
        *i += 1;
        Ok(CItem::Ch(c))
    }
}

// ------------------------------------------------------------------------------------------------
// renderer (inverse of the parser on generated ASTs)

fn r_lit(c: char, out: &mut String) {
    match c {
        '\n' => out.push_str("\\n"),
        '\r' => out.push_str("\\r"),
        '\t' => out.push_str("\\t"),
        c if META.contains(c) => {
            out.push('\\');
            out.push(c);
        }
        c => out.push(c),
    }
}

pub fn render(re: &Re) -> String {
    let mut s = String::new();
    r(re, &mut s);
    s
}

fn r(re: &Re, out: &mut String) {
    match re {
        Re::Lit(c) => r_lit(*c, out),
        Re::Dot => out.push('.'),
        Re::Bol => out.push('^'),
        Re::Eol => out.push('$'),
        Re::Prop(n, k) => {
            out.push_str(if *n { "\\P{" } else { "\\p{" });
            out.push_str(k.text());
            out.push('}');
        }
        Re::Class(neg, items) => {
            out.push('[');
            if *neg {
                out.push('^');
            }
            for it in items {
                match it {
                    CItem::Ch(c) => r_class_ch(*c, out),
                    CItem::Range(a, b) => {
                        r_class_ch(*a, out);
                        out.push('-');
                        r_class_ch(*b, out);
                    }
                    CItem::Prop(n, k) => {
                        out.push_str(if *n { "\\P{" } else { "\\p{" });
                        out.push_str(k.text());
                        out.push('}');
                    }
                }
            }
            out.push(']');
        }
        Re::Cat(xs) => {
            for x in xs {
                match x {
                    Re::Alt(_) => {
                        out.push('(');
                        r(x, out);
                        out.push(')');
                    }
                    _ => r(x, out),
                }
            }
        }
        Re::Alt(xs) => {
            for (i, x) in xs.iter().enumerate() {
                if i > 0 {
                    out.push('|');
                }
                r(x, out);
            }
        }
        Re::Group(x) => {
            out.push('(');
            r(x, out);
            out.push(')');
        }
        Re::Rep(x, min, max) => {
            match x.as_ref() {
                Re::Cat(_) | Re::Alt(_) | Re::Rep(..) => {
                    out.push('(');
                    r(x, out);
                    out.push(')');
                }
                _ => r(x, out),
            }
            match (min, max) {
                (0, None) => out.push('*'),
                (1, None) => out.push('+'),
                (0, Some(1)) => out.push('?'),
                (a, None) => out.push_str(&format!("{{{},}}", a)),
                (a, Some(b)) if a == b => out.push_str(&format!("{{{}}}", a)),
                (a, Some(b)) => out.push_str(&format!("{{{},{}}}", a, b)),
            }
        }
    }
}

fn r_class_ch(c: char, out: &mut String) {
    match c {
        '\n' => out.push_str("\\n"),
        '\r' => out.push_str("\\r"),
        '\t' => out.push_str("\\t"),
        '-' | '[' | ']' | '\\' | '^' => {
            out.push('\\');
            out.push(c);
        }
        c => out.push(c),
    }
}

// ------------------------------------------------------------------------------------------------
// matcher

pub struct Matcher<'a> {
    s: &'a [char],
    pub dot_matches_cr: bool,
    steps: u64,
}

fn class_has(items: &[CItem], c: char) -> bool {
    items.iter().any(|it| match it {
        CItem::Ch(x) => *x == c,
        CItem::Range(a, b) => *a <= c && c <= *b,
        CItem::Prop(n, k) => in_cat(c, *k) != *n,
    })
}

pub const STEP_LIMIT: u64 = 400_000;

thread_local! {
    /// set when a match was abandoned because the naive matcher ran out of its step budget; the
    /// caller must then discard the case (the answer returned is meaningless)
    pub static GAVE_UP: std::cell::Cell<bool> = std::cell::Cell::new(false);
}

pub fn take_gave_up() -> bool {
    GAVE_UP.with(|g| g.replace(false))
}

impl<'a> Matcher<'a> {
    fn m(&mut self, re: &Re, i: usize, k: &mut dyn FnMut(&mut Self, usize) -> bool) -> bool {
        self.steps += 1;
        if self.steps > STEP_LIMIT {
            GAVE_UP.with(|g| g.set(true));
            return false;
        }
        match re {
            Re::Lit(c) => i < self.s.len() && self.s[i] == *c && k(self, i + 1),
            Re::Dot => {
                i < self.s.len()
                    && self.s[i] != '\n'
                    && (self.dot_matches_cr || self.s[i] != '\r')
                    && k(self, i + 1)
            }
            Re::Prop(n, kk) => i < self.s.len() && (in_cat(self.s[i], *kk) != *n) && k(self, i + 1),
            Re::Class(neg, items) => {
                i < self.s.len() && (class_has(items, self.s[i]) != *neg) && k(self, i + 1)
            }
            Re::Bol => i == 0 && k(self, i),
            Re::Eol => i == self.s.len() && k(self, i),
            Re::Group(x) => self.m(x, i, k),
            Re::Alt(xs) => {
                for x in xs {
                    if self.m(x, i, k) {
                        return true;
                    }
                }
                false
            }
            Re::Cat(xs) => self.cat(xs, i, k),
            Re::Rep(x, min, max) => self.rep(x, *min, *max, 0, i, k),
        }
    }
    fn cat(&mut self, xs: &[Re], i: usize, k: &mut dyn FnMut(&mut Self, usize) -> bool) -> bool {
        match xs.split_first() {
            None => k(self, i),
            Some((h, t)) => self.m(h, i, &mut |me, j| me.cat(t, j, k)),
        }
    }
    fn rep(
        &mut self,
        x: &Re,
        min: u32,
        max: Option<u32>,
        done: u32,
        i: usize,
        k: &mut dyn FnMut(&mut Self, usize) -> bool,
    ) -> bool {
        if max.map_or(true, |m| done < m) {
            let more = self.m(x, i, &mut |me, j| {
                // an iteration that consumed nothing cannot help beyond the minimum
                if j == i && done >= min {
                    return false;
                }
                me.rep(x, min, max, done + 1, j, k)
            });
            if more {
                return true;
            }
        }
        done >= min && k(self, i)
    }
}

/// whole-string match
pub fn full(re: &Re, subject: &str, dot_matches_cr: bool) -> bool {
    let s: Vec<char> = subject.chars().collect();
    let n = s.len();
    let mut m = Matcher {
        s: &s,
        dot_matches_cr,
        steps: 0,
    };
    m.m(re, 0, &mut |_, j| j == n)
}

/// some substring matches
pub fn find(re: &Re, subject: &str, dot_matches_cr: bool) -> bool {
    let s: Vec<char> = subject.chars().collect();
    let mut m = Matcher {
        s: &s,
        dot_matches_cr,
        steps: 0,
    };
    for st in 0..=s.len() {
        if m.m(re, st, &mut |_, _| true) {
            return true;
        }
    }
    false
}

// ------------------------------------------------------------------------------------------------
// generator

/// the two quotation marks (the last two entries of `ALPHABET`) are generated only where the check models
/// what the library does to them in a pattern (C10, finding K4); everywhere else regular expressions are
/// a means, not the subject
static QUOTES_IN_ALPHABET: std::sync::atomic::AtomicBool = std::sync::atomic::AtomicBool::new(false);
pub fn allow_quotes() {
    QUOTES_IN_ALPHABET.store(true, std::sync::atomic::Ordering::Relaxed);
}
fn alphabet() -> &'static [(char, &'static str)] {
    if QUOTES_IN_ALPHABET.load(std::sync::atomic::Ordering::Relaxed) {
        ALPHABET
    } else {
        &ALPHABET[..ALPHABET.len() - 2]
    }
}

fn g_char(src: &mut Src, small: bool) -> char {
    let a = alphabet();
    let n = if small { 5 } else { a.len() };
    a[src.below(n)].0
}

fn g_cat(src: &mut Src) -> Cat {
    *src.pick(&[Cat::L, Cat::Lu, Cat::Ll, Cat::N, Cat::Nd])
}

fn g_atom(src: &mut Src, depth: u32) -> Re {
    match src.weighted(&[40, 10, 12, 6, if depth > 0 { 12 } else { 0 }]) {
        0 => {
            let small = src.pos_small();
            Re::Lit(g_char(src, small))
        }
        1 => Re::Dot,
        2 => {
            let neg = src.chance(1, 3);
            let n = 1 + src.below(3);
            let mut items = vec![];
            for _ in 0..n {
                items.push(match src.weighted(&[5, 3, 1]) {
                    0 => CItem::Ch(g_char(src, false)),
                    1 => {
                        let r = src.pick(&[('a', 'c'), ('a', 'b'), ('A', 'B'), ('1', '2'), ('a', 'z'), ('0', '9')]);
                        CItem::Range(r.0, r.1)
                    }
                    _ => CItem::Prop(src.chance(1, 4), g_cat(src)),
                });
            }
            Re::Class(neg, items)
        }
        3 => Re::Prop(src.chance(1, 4), g_cat(src)),
        _ => Re::Group(Box::new(g_alt(src, depth - 1))),
    }
}

trait SmallHint {
    fn pos_small(&mut self) -> bool;
}
impl<'a> SmallHint for Src<'a> {
    /// most literals come from the first five letters so that subjects and patterns collide
    fn pos_small(&mut self) -> bool {
        !self.chance(1, 4)
    }
}

fn g_piece(src: &mut Src, depth: u32) -> Re {
    let a = g_atom(src, depth);
    match src.weighted(&[60, 8, 8, 8, 6]) {
        0 => a,
        1 => Re::Rep(Box::new(a), 0, None),
        2 => Re::Rep(Box::new(a), 1, None),
        3 => Re::Rep(Box::new(a), 0, Some(1)),
        _ => {
            let lo = src.below(3) as u32;
            match src.below(3) {
                0 => Re::Rep(Box::new(a), lo, Some(lo)),
                1 => Re::Rep(Box::new(a), lo, None),
                _ => Re::Rep(Box::new(a), lo, Some(lo + src.below(3) as u32)),
            }
        }
    }
}

fn g_cat_re(src: &mut Src, depth: u32) -> Re {
    let n = src.weighted(&[10, 30, 30, 15, 5]);
    let mut xs: Vec<Re> = (0..n).map(|_| g_piece(src, depth)).collect();
    // explicit anchors at the ends of an alternative
    if src.chance(1, 10) {
        xs.insert(0, Re::Bol);
    }
    if src.chance(1, 10) {
        xs.push(Re::Eol);
    }
    if xs.len() == 1 {
        xs.pop().unwrap()
    } else {
        Re::Cat(xs)
    }
}

pub fn g_alt(src: &mut Src, depth: u32) -> Re {
    let n = 1 + src.weighted(&[60, 30, 10]);
    let mut xs: Vec<Re> = (0..n).map(|_| g_cat_re(src, depth)).collect();
    if xs.len() == 1 {
        xs.pop().unwrap()
    } else {
        Re::Alt(xs)
    }
}

pub fn gen_pattern(src: &mut Src) -> Re {
    g_alt(src, 2)
}

/// literal strings of the pattern, used to build subjects that have a chance to match
pub fn sample_match(re: &Re, src: &mut Src, out: &mut String) {
    match re {
        Re::Lit(c) => out.push(*c),
        Re::Dot => out.push(g_char(src, false)),
        Re::Prop(n, k) => {
            let cands: Vec<char> = alphabet()
                .iter()
                .map(|x| x.0)
                .filter(|c| in_cat(*c, *k) != *n)
                .collect();
            if !cands.is_empty() {
                out.push(*src.pick(&cands));
            }
        }
        Re::Class(neg, items) => {
            let cands: Vec<char> = alphabet()
                .iter()
                .map(|x| x.0)
                .chain("xyz09".chars())
                .filter(|c| class_has(items, *c) != *neg)
                .collect();
            if !cands.is_empty() {
                out.push(*src.pick(&cands));
            }
        }
        Re::Bol | Re::Eol => {}
        Re::Group(x) => sample_match(x, src, out),
        Re::Alt(xs) => sample_match(src.pick(xs), src, out),
        Re::Cat(xs) => xs.iter().for_each(|x| sample_match(x, src, out)),
        Re::Rep(x, min, max) => {
            let hi = max.unwrap_or(min + 2).min(min + 2);
            let n = *min + src.below((hi - min + 1) as usize) as u32;
            for _ in 0..n {
                sample_match(x, src, out);
            }
        }
    }
}

/// a subject related to the pattern: exact sample, sample with a prefix / suffix / both, a mutated
/// sample, or an unrelated string
pub fn gen_subject(re: &Re, src: &mut Src) -> String {
    let mut s = String::new();
    let mode = src.weighted(&[30, 15, 15, 15, 10, 15, 6]);
    if mode == 6 {
        // the subject spells the pattern (a name like `c++` or `[draft]` filtered with its own text): a regular
        // expression does not in general match its own text
        let own = render(re);
        if !own.contains('\\') && own.chars().all(|c| alphabet().iter().any(|(a, _)| *a == c)) {
            return own;
        }
    }
    if mode != 5 {
        sample_match(re, src, &mut s);
    }
    let extra = |src: &mut Src| -> String {
        let n = 1 + src.below(2);
        (0..n)
            .map(|_| {
                let small = !src.chance(1, 3);
                g_char(src, small)
            })
            .collect()
    };
    match mode {
        0 => s,
        1 => format!("{}{}", extra(src), s),
        2 => format!("{}{}", s, extra(src)),
        3 => format!("{}{}{}", extra(src), s, extra(src)),
        4 => {
            let mut cs: Vec<char> = s.chars().collect();
            if cs.is_empty() {
                cs.push(g_char(src, true));
            } else {
                let i = src.below(cs.len());
                if src.bool() {
                    cs[i] = g_char(src, false);
                } else {
                    cs.remove(i);
                }
            }
            cs.into_iter().collect()
        }
        _ => {
            let n = src.below(5);
            (0..n).map(|_| g_char(src, false)).collect()
        }
    }
}

/// patterns invalid both in I-Regexp and for the library's engine
pub const INVALID_PATTERNS: &[&str] = &["(", "a(", "(a", "a)", "[a", "[", "*a", "+", "a{2,1}", "\\", "(a|b", "[b-a]", "\\p{Xyz}", ")(", "a)(b"];
