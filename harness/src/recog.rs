//! Independent RFC 9535 recogniser: hand-written recursive descent over `char`s that follows the ABNF
//! of Appendix A rule by rule, the integer rules of 2.1 and the type system of 2.4.  It also builds
//! the harness AST, so that explicit (query text, document) cases can be run through the oracle.

use crate::ast::*;
use crate::json::MAX_SAFE;

#[derive(Clone, Debug, PartialEq)]
pub struct Reason {
    pub kind: &'static str,
    pub pos: usize,
    pub detail: String,
}

#[derive(Clone, Debug, PartialEq)]
pub enum Verdict {
    Valid(Query),
    Invalid(Reason),
    /// outside what the properties judge; the AST is available when the syntax is fine
    NotJudged(String, Option<Query>),
}

enum Stop {
    Invalid(Reason),
}

type P<T> = Result<T, Stop>;

struct Parser {
    cs: Vec<char>,
    i: usize,
    /// reasons for NotJudged collected on the way (syntax was acceptable)
    not_judged: Vec<String>,
}

fn inv<T>(kind: &'static str, pos: usize, detail: impl Into<String>) -> P<T> {
    Err(Stop::Invalid(Reason {
        kind,
        pos,
        detail: detail.into(),
    }))
}

pub fn is_blank(c: char) -> bool {
    matches!(c, ' ' | '\t' | '\n' | '\r')
}

fn is_fn_first(c: char) -> bool {
    c.is_ascii_lowercase()
}
fn is_fn_char(c: char) -> bool {
    c.is_ascii_lowercase() || c == '_' || c.is_ascii_digit()
}

impl Parser {
    fn peek(&self) -> Option<char> {
        self.cs.get(self.i).copied()
    }
    fn peek_at(&self, k: usize) -> Option<char> {
        self.cs.get(self.i + k).copied()
    }
    fn starts(&self, s: &str) -> bool {
        let mut j = self.i;
        for c in s.chars() {
            if self.cs.get(j) != Some(&c) {
                return false;
            }
            j += 1;
        }
        true
    }
    fn eat(&mut self, s: &str) -> bool {
        if self.starts(s) {
            self.i += s.chars().count();
            true
        } else {
            false
        }
    }
    /// S; returns whether any blank was consumed
    fn s(&mut self) -> bool {
        let st = self.i;
        while self.peek().map_or(false, is_blank) {
            self.i += 1;
        }
        self.i > st
    }

    // jsonpath-query = root-identifier segments
    fn query(&mut self) -> P<Query> {
        if !self.eat("$") {
            if self.peek().map_or(false, is_blank) {
                return inv("BlankNotAllowed", self.i, "leading blank");
            }
            return inv("Syntax", self.i, "query must start with $");
        }
        let segs = self.segments()?;
        if self.i != self.cs.len() {
            if self.cs[self.i..].iter().all(|c| is_blank(*c)) {
                return inv("BlankNotAllowed", self.i, "trailing blank");
            }
            return inv("Syntax", self.i, "unexpected text after the last segment");
        }
        Ok(Query { abs: true, segs })
    }

    // segments = *(S segment)
    fn segments(&mut self) -> P<Vec<Seg>> {
        let mut segs = vec![];
        loop {
            let save = self.i;
            self.s();
            match self.peek() {
                Some('.') | Some('[') => segs.push(self.segment()?),
                _ => {
                    self.i = save;
                    break;
                }
            }
        }
        Ok(segs)
    }

    fn shorthand(&mut self) -> P<String> {
        let st = self.i;
        match self.peek() {
            Some(c) if is_name_first(c) => self.i += 1,
            Some(c) if is_blank(c) => return inv("BlankNotAllowed", self.i, "blank where a member name must start"),
            _ => return inv("Syntax", self.i, "member-name-shorthand expected"),
        }
        while self.peek().map_or(false, |c| is_name_first(c) || c.is_ascii_digit()) {
            self.i += 1;
        }
        Ok(self.cs[st..self.i].iter().collect())
    }

    fn segment(&mut self) -> P<Seg> {
        if self.eat("..") {
            match self.peek() {
                Some('[') => {
                    let sels = self.bracketed()?;
                    Ok(Seg {
                        desc: true,
                        sels,
                        dot: false,
                    })
                }
                Some('*') => {
                    self.i += 1;
                    Ok(Seg {
                        desc: true,
                        sels: vec![Sel::Wild],
                        dot: true,
                    })
                }
                _ => {
                    let n = self.shorthand()?;
                    Ok(Seg {
                        desc: true,
                        sels: vec![Sel::Name(StrLit::plain(&n))],
                        dot: true,
                    })
                }
            }
        } else if self.eat(".") {
            if self.eat("*") {
                Ok(Seg {
                    desc: false,
                    sels: vec![Sel::Wild],
                    dot: true,
                })
            } else {
                let n = self.shorthand()?;
                Ok(Seg {
                    desc: false,
                    sels: vec![Sel::Name(StrLit::plain(&n))],
                    dot: true,
                })
            }
        } else {
            let sels = self.bracketed()?;
            Ok(Seg {
                desc: false,
                sels,
                dot: false,
            })
        }
    }

    // bracketed-selection = "[" S selector *(S "," S selector) S "]"
    fn bracketed(&mut self) -> P<Vec<Sel>> {
        if !self.eat("[") {
            return inv("Syntax", self.i, "[ expected");
        }
        let mut sels = vec![];
        self.s();
        sels.push(self.selector()?);
        loop {
            self.s();
            if self.eat(",") {
                self.s();
                sels.push(self.selector()?);
            } else if self.eat("]") {
                break;
            } else {
                return inv("Syntax", self.i, ", or ] expected");
            }
        }
        Ok(sels)
    }

    // int = "0" / (["-"] DIGIT1 *DIGIT)
    fn int(&mut self, what: &str) -> P<i64> {
        let st = self.i;
        let neg = self.eat("-");
        let ds = self.i;
        while self.peek().map_or(false, |c| c.is_ascii_digit()) {
            self.i += 1;
        }
        let digits: String = self.cs[ds..self.i].iter().collect();
        if digits.is_empty() {
            return inv("Syntax", st, format!("{}: digits expected", what));
        }
        if digits.len() > 1 && digits.starts_with('0') {
            return inv("IntForm", st, "leading zero");
        }
        if neg && digits == "0" {
            return inv("IntForm", st, "-0");
        }
        // exact range check without overflow
        let v: i128 = if digits.len() > 30 {
            i128::MAX
        } else {
            digits.parse::<i128>().unwrap_or(i128::MAX)
        };
        let v = if neg { -v } else { v };
        if v > MAX_SAFE as i128 || v < -(MAX_SAFE as i128) {
            return inv("IntRange", st, format!("{} outside the I-JSON range", what));
        }
        Ok(v as i64)
    }

    fn selector(&mut self) -> P<Sel> {
        match self.peek() {
            Some('\'') | Some('"') => Ok(Sel::Name(self.string()?)),
            Some('*') => {
                self.i += 1;
                Ok(Sel::Wild)
            }
            Some('?') => {
                self.i += 1;
                self.s();
                Ok(Sel::Filter(self.or_expr()?))
            }
            Some(c) if c == ':' || c == '-' || c.is_ascii_digit() => {
                // slice-selector = [start S] ":" S [end S] [":" [S step]]   /   index-selector = int
                let mut start = None;
                if c != ':' {
                    start = Some(self.int("index/start")?);
                    let save = self.i;
                    self.s();
                    if self.peek() != Some(':') {
                        self.i = save;
                        return Ok(Sel::Index(start.unwrap()));
                    }
                }
                self.i += 1; // ':'
                self.s();
                let mut end = None;
                if self.peek().map_or(false, |c| c == '-' || c.is_ascii_digit()) {
                    end = Some(self.int("end")?);
                    // [end S]: the blank belongs to the slice only if something of the slice follows;
                    // either way blanks before , or ] are fine (bracketed-selection has S there)
                    self.s();
                }
                let mut step = None;
                let mut colon2 = false;
                if self.eat(":") {
                    colon2 = true;
                    let save = self.i;
                    self.s();
                    if self.peek().map_or(false, |c| c == '-' || c.is_ascii_digit()) {
                        step = Some(self.int("step")?);
                        colon2 = false;
                    } else {
                        // `[S step]` absent: blanks here belong to the bracketed selection
                        self.i = save;
                    }
                }
                Ok(Sel::Slice(start, end, step, colon2))
            }
            Some(c) if is_blank(c) => inv("BlankNotAllowed", self.i, "blank"),
            _ => inv("Syntax", self.i, "selector expected"),
        }
    }

    fn hex4(&mut self) -> P<u32> {
        let st = self.i;
        let mut v = 0u32;
        for _ in 0..4 {
            match self.peek().and_then(|c| c.to_digit(16)) {
                Some(d) => {
                    v = v * 16 + d;
                    self.i += 1;
                }
                None => return inv("BadEscape", st, "\\u needs four hexadecimal digits"),
            }
        }
        Ok(v)
    }

    // string-literal
    fn string(&mut self) -> P<StrLit> {
        let q = self.peek().unwrap_or('\'');
        let quote = if q == '\'' { Quote::S } else { Quote::D };
        let open = self.i;
        self.i += 1;
        let st = self.i;
        let mut val = String::new();
        loop {
            let c = match self.peek() {
                Some(c) => c,
                None => return inv("Syntax", open, "unterminated string"),
            };
            if c == q {
                break;
            }
            if c == '\\' {
                let epos = self.i;
                self.i += 1;
                let e = match self.peek() {
                    Some(e) => e,
                    None => return inv("BadEscape", epos, "dangling backslash"),
                };
                self.i += 1;
                match e {
                    'b' => val.push('\u{8}'),
                    'f' => val.push('\u{c}'),
                    'n' => val.push('\n'),
                    'r' => val.push('\r'),
                    't' => val.push('\t'),
                    '/' => val.push('/'),
                    '\\' => val.push('\\'),
                    '\'' if q == '\'' => val.push('\''),
                    '"' if q == '"' => val.push('"'),
                    'u' => {
                        let u = self.hex4()?;
                        if (0xD800..0xDC00).contains(&u) {
                            if !(self.eat("\\u")) {
                                return inv("BadEscape", epos, "high surrogate without low surrogate");
                            }
                            let lo = self.hex4()?;
                            if !(0xDC00..0xE000).contains(&lo) {
                                return inv("BadEscape", epos, "high surrogate without low surrogate");
                            }
                            let cp = 0x10000 + ((u - 0xD800) << 10) + (lo - 0xDC00);
                            val.push(char::from_u32(cp).unwrap_or('\u{fffd}'));
                        } else if (0xDC00..0xE000).contains(&u) {
                            return inv("BadEscape", epos, "lone low surrogate");
                        } else {
                            val.push(char::from_u32(u).unwrap_or('\u{fffd}'));
                        }
                    }
                    _ => return inv("BadEscape", epos, format!("\\{} is not an escape", e)),
                }
                continue;
            }
            if (c as u32) < 0x20 {
                return inv("RawControl", self.i, "unescaped control character in a string");
            }
            // unescaped / the other quote
            val.push(c);
            self.i += 1;
        }
        let raw: String = self.cs[st..self.i].iter().collect();
        self.i += 1;
        Ok(StrLit { val, quote, raw })
    }

    // number = (int / "-0") [ frac ] [ exp ]
    fn number(&mut self) -> P<NumLit> {
        let st = self.i;
        let neg = self.eat("-");
        let ds = self.i;
        while self.peek().map_or(false, |c| c.is_ascii_digit()) {
            self.i += 1;
        }
        let digits: String = self.cs[ds..self.i].iter().collect();
        if digits.is_empty() {
            return inv("Syntax", st, "digits expected");
        }
        if digits.len() > 1 && digits.starts_with('0') {
            return inv("IntForm", st, "leading zero in a number");
        }
        let mut int_text = true;
        if self.peek() == Some('.') {
            if !self.peek_at(1).map_or(false, |c| c.is_ascii_digit()) {
                return inv("Syntax", self.i, "digits expected after the decimal point");
            }
            int_text = false;
            self.i += 1;
            while self.peek().map_or(false, |c| c.is_ascii_digit()) {
                self.i += 1;
            }
        }
        if matches!(self.peek(), Some('e') | Some('E')) {
            let save = self.i;
            self.i += 1;
            if matches!(self.peek(), Some('+') | Some('-')) {
                self.i += 1;
            }
            if !self.peek().map_or(false, |c| c.is_ascii_digit()) {
                return inv("Syntax", save, "digits expected in the exponent");
            }
            int_text = false;
            while self.peek().map_or(false, |c| c.is_ascii_digit()) {
                self.i += 1;
            }
        }
        let text: String = self.cs[st..self.i].iter().collect();
        if int_text && neg && digits == "0" {
            // "-0" is a valid number (not a valid int): value -0
            return Ok(NumLit {
                text,
                val: -0.0,
                int_text: false,
            });
        }
        let val: f64 = text.parse().unwrap_or(f64::NAN);
        if int_text && (!val.is_finite() || val.abs() > MAX_SAFE as f64) {
            // an integer (no fraction, no exponent) outside the I-JSON range: RFC 9535 2.1 demands that range of
            // the integers "relevant to the JSONPath processing"; the property lists out-of-range integers and is
            // anchored in the library's range check of exactly these literals (parser.rs, `parse_number`)
            return inv("IntRange", st, "integer literal outside the I-JSON range");
        }
        // `1e400`, `9007199254740993.0`: numbers of the grammar (no range rule applies to fractions / exponents)
        Ok(NumLit { text, val, int_text })
    }

    fn keyword(&mut self, w: &str) -> bool {
        if self.starts(w) {
            let n = w.chars().count();
            let after = self.peek_at(n);
            if after.map_or(false, |c| is_fn_char(c) || c == '(') {
                return false;
            }
            self.i += n;
            true
        } else {
            false
        }
    }

    fn literal(&mut self) -> P<Option<Lit>> {
        match self.peek() {
            Some('\'') | Some('"') => Ok(Some(Lit::Str(self.string()?))),
            Some(c) if c == '-' || c.is_ascii_digit() => Ok(Some(Lit::Num(self.number()?))),
            _ => {
                if self.keyword("true") {
                    Ok(Some(Lit::Bool(true)))
                } else if self.keyword("false") {
                    Ok(Some(Lit::Bool(false)))
                } else if self.keyword("null") {
                    Ok(Some(Lit::Null))
                } else {
                    Ok(None)
                }
            }
        }
    }

    // logical-or-expr = logical-and-expr *(S "||" S logical-and-expr)
    fn or_expr(&mut self) -> P<Expr> {
        let mut xs = vec![self.and_expr()?];
        loop {
            let save = self.i;
            self.s();
            if self.eat("||") {
                self.s();
                xs.push(self.and_expr()?);
            } else {
                self.i = save;
                break;
            }
        }
        Ok(if xs.len() == 1 { xs.pop().unwrap() } else { Expr::Or(xs) })
    }

    fn and_expr(&mut self) -> P<Expr> {
        let mut xs = vec![self.basic()?];
        loop {
            let save = self.i;
            self.s();
            if self.eat("&&") {
                self.s();
                xs.push(self.basic()?);
            } else {
                self.i = save;
                break;
            }
        }
        Ok(if xs.len() == 1 { xs.pop().unwrap() } else { Expr::And(xs) })
    }

    fn comparison_op(&mut self) -> Option<Op> {
        for (t, op) in [("==", Op::Eq), ("!=", Op::Ne), ("<=", Op::Le), (">=", Op::Ge), ("<", Op::Lt), (">", Op::Gt)] {
            if self.eat(t) {
                return Some(op);
            }
        }
        None
    }

    /// filter-query starting at `@` or `$`; also reports whether a bracket of a name/index segment
    /// contained blanks (not allowed by the singular-query ABNF)
    fn filter_query(&mut self) -> P<(Query, bool)> {
        let abs = self.peek() == Some('$');
        self.i += 1;
        let st = self.i;
        let segs = self.segments()?;
        // detect "[ S x S ]" with blanks for single name/index selectors
        let text: Vec<char> = self.cs[st..self.i].to_vec();
        let mut inner_blank = false;
        let mut k = 0;
        let mut in_str: Option<char> = None;
        while k < text.len() {
            let c = text[k];
            match in_str {
                Some(q) => {
                    if c == '\\' {
                        k += 1;
                    } else if c == q {
                        in_str = None;
                    }
                }
                None => {
                    if c == '\'' || c == '"' {
                        in_str = Some(c);
                    } else if c == '[' && text.get(k + 1).map_or(false, |x| is_blank(*x)) {
                        inner_blank = true;
                    } else if c == ']' && k > 0 && is_blank(text[k - 1]) {
                        inner_blank = true;
                    }
                }
            }
            k += 1;
        }
        Ok((Query { abs, segs }, inner_blank))
    }

    fn function(&mut self) -> P<Func> {
        let st = self.i;
        while self.peek().map_or(false, is_fn_char) {
            self.i += 1;
        }
        let name: String = self.cs[st..self.i].iter().collect();
        if !self.eat("(") {
            if self.peek().map_or(false, is_blank) {
                return inv("BlankNotAllowed", self.i, "blank between a function name and (");
            }
            return inv("Syntax", self.i, "( expected after a function name");
        }
        self.s();
        let mut args = vec![];
        if self.eat(")") {
            return Ok(Func { name, args });
        }
        loop {
            args.push(self.argument()?);
            self.s();
            if self.eat(",") {
                self.s();
            } else if self.eat(")") {
                break;
            } else {
                return inv("Syntax", self.i, ", or ) expected in a function call");
            }
        }
        Ok(Func { name, args })
    }

    // function-argument = literal / filter-query / logical-expr / function-expr
    fn argument(&mut self) -> P<Arg> {
        let st = self.i;
        let nj = self.not_judged.len();
        if let Some(l) = self.literal()? {
            let save = self.i;
            self.s();
            if matches!(self.peek(), Some(',') | Some(')')) {
                self.i = save;
                return Ok(Arg::Lit(l));
            }
            self.i = st;
            self.not_judged.truncate(nj);
        }
        let e = self.or_expr()?;
        Ok(match e {
            Expr::Test(false, t) => match *t {
                TestE::Q(q) => Arg::Q(q),
                TestE::F(f) => Arg::F(f),
            },
            e => Arg::E(e),
        })
    }

    // basic-expr = paren-expr / comparison-expr / test-expr
    fn basic(&mut self) -> P<Expr> {
        let st = self.i;
        if self.peek() == Some('!') {
            self.i += 1;
            self.s();
            if self.peek() == Some('(') {
                return self.paren(true);
            }
            return match self.peek() {
                Some('@') | Some('$') => {
                    let (q, _) = self.filter_query()?;
                    Ok(Expr::Test(true, Box::new(TestE::Q(q))))
                }
                Some(c) if is_fn_first(c) => {
                    let f = self.function()?;
                    Ok(Expr::Test(true, Box::new(TestE::F(f))))
                }
                _ => inv("Syntax", self.i, "a query or a function call expected after !"),
            };
        }
        if self.peek() == Some('(') {
            return self.paren(false);
        }
        // primary
        use PrimX as Prim;
        let prim = if let Some(l) = self.literal()? {
            Prim::L(l)
        } else {
            match self.peek() {
                Some('@') | Some('$') => {
                    let (q, b) = self.filter_query()?;
                    Prim::Q(q, b)
                }
                Some(c) if is_fn_first(c) => Prim::F(self.function()?),
                Some(c) if is_blank(c) => return inv("BlankNotAllowed", self.i, "blank"),
                _ => return inv("Syntax", self.i, "expression expected"),
            }
        };
        let save = self.i;
        self.s();
        let oppos = self.i;
        if let Some(op) = self.comparison_op() {
            self.s();
            let left = self.to_comparable(prim, st)?;
            let rst = self.i;
            let right = if let Some(l) = self.literal()? {
                Cmpable::Lit(l)
            } else {
                match self.peek() {
                    Some('@') | Some('$') => {
                        let (q, b) = self.filter_query()?;
                        self.to_comparable(PrimX::Q(q, b), rst)?
                    }
                    Some(c) if is_fn_first(c) => {
                        let f = self.function()?;
                        Cmpable::F(f)
                    }
                    _ => return inv("Syntax", self.i, "comparable expected"),
                }
            };
            let _ = oppos;
            return Ok(Expr::Cmp(Box::new(left), op, Box::new(right)));
        }
        self.i = save;
        match prim {
            Prim::L(_) => inv("LiteralAsTest", st, "a literal is not a test expression"),
            Prim::Q(q, _) => Ok(Expr::Test(false, Box::new(TestE::Q(q)))),
            Prim::F(f) => Ok(Expr::Test(false, Box::new(TestE::F(f)))),
        }
    }

    fn to_comparable(&mut self, p: PrimX, pos: usize) -> P<Cmpable> {
        match p {
            PrimX::L(l) => Ok(Cmpable::Lit(l)),
            PrimX::F(f) => Ok(Cmpable::F(f)),
            PrimX::Q(q, inner_blank) => {
                if !q.is_singular() {
                    return inv("NonSingularInComparable", pos, "only singular queries can be compared");
                }
                if inner_blank {
                    self.not_judged
                        .push("blank inside the brackets of a singular-query segment".into());
                }
                let steps = q
                    .segs
                    .iter()
                    .map(|s| match &s.sels[0] {
                        Sel::Name(n) => SingStep::Name(n.clone(), s.dot),
                        Sel::Index(i) => SingStep::Index(*i),
                        _ => unreachable!(),
                    })
                    .collect();
                Ok(Cmpable::Sing(Sing { abs: q.abs, steps }))
            }
        }
    }

    // paren-expr = [logical-not-op S] "(" S logical-expr S ")"
    fn paren(&mut self, not: bool) -> P<Expr> {
        self.i += 1;
        self.s();
        let e = self.or_expr()?;
        self.s();
        if !self.eat(")") {
            return inv("Syntax", self.i, ") expected");
        }
        Ok(Expr::Paren(not, Box::new(e)))
    }
}

enum PrimX {
    L(Lit),
    Q(Query, bool),
    F(Func),
}

// ------------------------------------------------------------------------------------------------
// type checking (RFC 9535 2.4.1 - 2.4.3, 2.4.9)

#[derive(Clone, Copy, PartialEq, Debug)]
pub enum Ty {
    Value,
    Logical,
    Nodes,
}

pub fn signature(name: &str) -> Option<(&'static [Ty], Ty)> {
    Some(match name {
        "length" => (&[Ty::Value], Ty::Value),
        "count" => (&[Ty::Nodes], Ty::Value),
        "match" => (&[Ty::Value, Ty::Value], Ty::Logical),
        "search" => (&[Ty::Value, Ty::Value], Ty::Logical),
        "value" => (&[Ty::Nodes], Ty::Value),
        _ => return None,
    })
}

struct Typer {
    not_judged: Vec<String>,
}

type T<X> = Result<X, Reason>;

fn terr<X>(kind: &'static str, detail: String) -> T<X> {
    Err(Reason {
        kind,
        pos: 0,
        detail,
    })
}

impl Typer {
    fn query(&mut self, q: &Query) -> T<()> {
        for s in &q.segs {
            for sel in &s.sels {
                if let Sel::Filter(e) = sel {
                    self.expr(e)?;
                }
            }
        }
        Ok(())
    }
    fn expr(&mut self, e: &Expr) -> T<()> {
        match e {
            Expr::Or(xs) | Expr::And(xs) => {
                for x in xs {
                    self.expr(x)?;
                }
                Ok(())
            }
            Expr::Paren(_, x) => self.expr(x),
            Expr::Cmp(l, _, r) => {
                self.cmpable(l)?;
                self.cmpable(r)
            }
            Expr::Test(_, t) => match t.as_ref() {
                TestE::Q(q) => self.query(q),
                TestE::F(f) => match self.func(f)? {
                    Some(Ty::Value) => terr(
                        "FnResultUse",
                        format!("{}() returns a value and cannot be used as a test", f.name),
                    ),
                    _ => Ok(()),
                },
            },
        }
    }
    fn cmpable(&mut self, c: &Cmpable) -> T<()> {
        match c {
            Cmpable::Lit(_) | Cmpable::Sing(_) => Ok(()),
            Cmpable::F(f) => match self.func(f)? {
                Some(Ty::Value) | None => Ok(()),
                Some(_) => terr(
                    "FnResultUse",
                    format!("{}() does not return a value and cannot be compared", f.name),
                ),
            },
        }
    }
    /// result type; None for functions the RFC does not define
    fn func(&mut self, f: &Func) -> T<Option<Ty>> {
        let (params, ret) = match signature(&f.name) {
            Some(s) => s,
            None => {
                self.not_judged.push("a function name RFC 9535 does not define (extension hook)".to_string());
                // still descend: nested RFC functions must be well-typed on their own
                for a in &f.args {
                    match a {
                        Arg::Q(q) => self.query(q)?,
                        Arg::E(e) => self.expr(e)?,
                        Arg::F(g) => {
                            self.func(g)?;
                        }
                        Arg::Lit(_) => {}
                    }
                }
                return Ok(None);
            }
        };
        if params.len() != f.args.len() {
            return terr(
                "FnArity",
                format!("{}() takes {} argument(s), got {}", f.name, params.len(), f.args.len()),
            );
        }
        for (i, (p, a)) in params.iter().zip(&f.args).enumerate() {
            let bad = |why: &str| -> T<Option<Ty>> {
                terr(
                    "FnArgType",
                    format!("argument {} of {}(): {}", i + 1, f.name, why),
                )
            };
            match (p, a) {
                (Ty::Value, Arg::Lit(_)) => {}
                (Ty::Value, Arg::Q(q)) => {
                    self.query(q)?;
                    if !q.is_singular() {
                        return bad("a value is required, the query is not singular");
                    }
                }
                (Ty::Value, Arg::F(g)) => match self.func(g)? {
                    Some(Ty::Value) | None => {}
                    Some(_) => return bad("a value is required, the function returns none"),
                },
                (Ty::Value, Arg::E(e)) => {
                    self.expr(e)?;
                    return bad("a value is required, got a logical expression");
                }
                (Ty::Nodes, Arg::Q(q)) => self.query(q)?,
                (Ty::Nodes, Arg::F(g)) => match self.func(g)? {
                    Some(Ty::Nodes) | None => {}
                    Some(_) => return bad("a nodelist is required"),
                },
                (Ty::Nodes, Arg::Lit(_)) => return bad("a nodelist is required, got a literal"),
                (Ty::Nodes, Arg::E(e)) => {
                    self.expr(e)?;
                    return bad("a nodelist is required, got a logical expression");
                }
                (Ty::Logical, Arg::Lit(_)) => return bad("a logical value is required, got a literal"),
                (Ty::Logical, Arg::Q(q)) => self.query(q)?,
                (Ty::Logical, Arg::E(e)) => self.expr(e)?,
                (Ty::Logical, Arg::F(g)) => match self.func(g)? {
                    Some(Ty::Value) => return bad("a logical value is required"),
                    _ => {}
                },
            }
        }
        Ok(Some(ret))
    }
}

pub fn classify(s: &str) -> Verdict {
    let mut p = Parser {
        cs: s.chars().collect(),
        i: 0,
        not_judged: vec![],
    };
    let q = match p.query() {
        Ok(q) => q,
        Err(Stop::Invalid(r)) => return Verdict::Invalid(r),
    };
    let mut t = Typer { not_judged: vec![] };
    if let Err(r) = t.query(&q) {
        return Verdict::Invalid(r);
    }
    let mut nj = p.not_judged;
    nj.extend(t.not_judged);
    if nj.is_empty() {
        Verdict::Valid(q)
    } else {
        nj.sort();
        nj.dedup();
        Verdict::NotJudged(nj.join("; "), Some(q))
    }
}

/// the AST of a query text whose syntax the recogniser accepts (validity aside)
pub fn parse_ast(s: &str) -> Option<Query> {
    match classify(s) {
        Verdict::Valid(q) => Some(q),
        Verdict::NotJudged(_, q) => q,
        Verdict::Invalid(_) => None,
    }
}

/// the location a path made of name and non-negative index steps spells (`None` for anything else)
pub fn path_to_loc(path: &str) -> Option<crate::json::Loc> {
    let q = parse_ast(path)?;
    if !q.abs {
        return None;
    }
    let mut loc = vec![];
    for s in &q.segs {
        if s.desc || s.sels.len() != 1 {
            return None;
        }
        match &s.sels[0] {
            Sel::Name(n) => loc.push(crate::json::Step::Key(n.val.clone())),
            Sel::Index(i) if *i >= 0 => loc.push(crate::json::Step::Idx(*i as usize)),
            _ => return None,
        }
    }
    Some(loc)
}
