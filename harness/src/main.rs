use jpv::engine::{replay, run_prop, RunCfg};

fn usage() -> ! {
    eprintln!("usage: jpv run <Cxx> [--tier quick|thorough] [--sub NAME] | jpv replay <Cxx> <file>");
    std::process::exit(2)
}

/// `run` and `replay` execute in a child of this process: a library call that takes the whole process down
/// (stack overflow, abort, kill by the kernel) cannot be caught inside it, so the parent looks at how the
/// child ended.  The child leaves the input of every library call in a breadcrumb file while the call runs.
/// Death by signal while C08 is being checked is a violation of C08 (reported with the input, after each
/// candidate input has been tried once more in a child of its own); while another property is being checked
/// it means that check could not decide (exit 2): the crash is C08's business.
fn supervise(args: &[String]) -> ! {
    use std::os::unix::process::ExitStatusExt;
    let prop = args[2].clone();
    let crumbs = jpv::engine::verif_dir().join(".crumbs").join(std::process::id().to_string());
    let _ = std::fs::remove_dir_all(&crumbs);
    let _ = std::fs::create_dir_all(&crumbs);
    let exe = std::env::current_exe().unwrap_or_default();
    let status = std::process::Command::new(&exe).args(&args[1..]).env("JPV_INNER", "1").env("JPV_CRUMBS", &crumbs).status();
    let status = match status {
        Ok(s) => s,
        Err(e) => {
            eprintln!("cannot start the worker process: {}", e);
            std::process::exit(2)
        }
    };
    if let Some(code) = status.code() {
        let _ = std::fs::remove_dir_all(&crumbs);
        std::process::exit(code)
    }
    let sig = status.signal().unwrap_or(0);
    let candidates = jpv::engine::read_crumbs(&crumbs);
    let _ = std::fs::remove_dir_all(&crumbs);
    eprintln!("the worker process was killed by signal {} while {} was being checked; {} library call(s) were in flight", sig, prop, candidates.len());
    // which of the inputs in flight does it again, alone, in a fresh process?
    let mut culprit: Option<(serde_json::Value, String)> = None;
    let mut first: Option<(serde_json::Value, String)> = None;
    for c in &candidates {
        let f = jpv::engine::Failure::new(format!("the process is killed by signal {} (stack overflow, abort or out of memory) inside a library call", sig), c.clone());
        let path = jpv::engine::write_replay("C08", "abort", 0, None, &f);
        if first.is_none() {
            first = Some((c.clone(), path.clone()));
        }
        let again = std::process::Command::new(&exe).args(["replay", "C08", &path]).env("JPV_INNER", "1").stdout(std::process::Stdio::null()).stderr(std::process::Stdio::null()).status();
        if let Ok(st) = again {
            if st.code().is_none() {
                culprit = Some((c.clone(), path));
                break;
            }
        }
    }
    let reproduced = culprit.is_some();
    let shown = culprit.or(first);
    if prop == "C08" {
        let path = match &shown {
            Some((_, p)) => p.clone(),
            None => {
                let f = jpv::engine::Failure::new(format!("the process is killed by signal {} during the check; no library call had left its input (the call is one that goes around the harness' call wrapper)", sig), serde_json::json!({"arguments": args[1..]}));
                jpv::engine::write_replay("C08", "abort", 0, None, &f)
            }
        };
        println!("VIOLATION property=C08 replay={}", path);
        eprintln!("  the process was killed by signal {} (stack overflow, abort or out of memory) inside a library call{}", sig, if reproduced { "; the saved input does it again on its own" } else { "; no single input in flight reproduced it on its own (saved: the first one)" });
        if let Some((c, _)) = &shown {
            let t = c.to_string();
            eprintln!("  case: {}", if t.len() > 2000 { format!("{}...", &t[..2000]) } else { t });
        }
        std::process::exit(1)
    }
    // C11 states that every index / slice selection terminates: an input that takes a fresh process down on its
    // own is a selection that does not (the watchdog reports a hang under C11 in the same way)
    if prop == "C11" && reproduced && [4, 6, 7, 11].contains(&sig) {
        if let Some((c, p)) = &shown {
            println!("VIOLATION property=C11 replay={}", p);
            let t = c.to_string();
            eprintln!("  the process is killed by signal {} (stack overflow or abort) inside a library call; the saved input does it again on its own in a fresh process", sig);
            eprintln!("  case: {}", if t.len() > 600 { format!("{}...", &t[..600]) } else { t });
            std::process::exit(1)
        }
    }
    if let Some((c, p)) = &shown {
        let t = c.to_string();
        eprintln!("  input in flight{}: {}  (saved as a C08 replay: {})", if reproduced { " (kills a fresh process too)" } else { "" }, if t.len() > 600 { format!("{}...", &t[..600]) } else { t }, p);
    }
    eprintln!("{} could not be decided: the library took the process down; that is a matter for C08", prop);
    std::process::exit(2)
}

fn main() {
    let args: Vec<String> = std::env::args().collect();
    if args.len() < 2 {
        usage();
    }
    if (args[1] == "run" || args[1] == "replay") && args.len() >= 3 && std::env::var("JPV_INNER").is_err() {
        supervise(&args);
    }
    let props = jpv::props::all();
    let find = |id: &str| props.iter().find(|p| p.id == id);
    let seed: u64 = std::env::var("VERIF_SEED")
        .ok()
        .and_then(|s| s.parse::<i64>().ok().map(|x| x as u64).or_else(|| s.parse::<u64>().ok()))
        .unwrap_or(20260926);
    match args[1].as_str() {
        "selftest" => match jpv::rfc::selftest() {
            Ok(n) => {
                println!("selftest ok: {} cases", n);
                std::process::exit(0)
            }
            Err(e) => {
                eprintln!("selftest FAILED: {}", e);
                std::process::exit(2)
            }
        },
        "dump-corpus" => {
            // seeds for the libFuzzer targets: RFC examples, valid and invalid
            let dir = std::path::PathBuf::from(&args[2]);
            let _ = std::fs::create_dir_all(dir.join("accrej"));
            let _ = std::fs::create_dir_all(dir.join("nopanic"));
            let mut n = 0;
            let mut all: Vec<String> = jpv::rfc::valid_queries();
            all.extend(jpv::rfc::invalid_queries().into_iter().map(|x| x.0));
            all.extend(jpv::rfc::eval_rows().into_iter().map(|r| r.query));
            for q in all {
                let _ = std::fs::write(dir.join("accrej").join(format!("seed{:04}", n)), q.as_bytes());
                let mut b = q.as_bytes().to_vec();
                b.push(0xFF);
                b.extend_from_slice(br#"{"a":[1,{"b":"x","a":[2,3]}],"b":{"a":null}}"#);
                let _ = std::fs::write(dir.join("nopanic").join(format!("seed{:04}", n)), b);
                n += 1;
            }
            println!("{} seeds", n);
            std::process::exit(0)
        }
        "once" => std::process::exit(jpv::props::c12::once_main()),
        "probe" => {
            let n: usize = args.get(3).and_then(|s| s.parse().ok()).unwrap_or(1);
            std::process::exit(jpv::props::c08::probe_main(&args[2], n))
        }
        "run" => {
            let p = match find(&args[2]) {
                Some(p) => p,
                None => {
                    eprintln!("unknown property {}", args[2]);
                    std::process::exit(2)
                }
            };
            let mut thorough = std::env::var("VERIF_TIER").map_or(false, |t| t == "thorough");
            let mut sub = None;
            let mut write_evidence = true;
            let mut i = 3;
            while i < args.len() {
                match args[i].as_str() {
                    "--tier" => {
                        thorough = args.get(i + 1).map_or(false, |t| t == "thorough");
                        i += 1;
                    }
                    "--no-evidence" => write_evidence = false,
                    "--sub" => {
                        sub = args.get(i + 1).cloned();
                        i += 1;
                    }
                    _ => usage(),
                }
                i += 1;
            }
            if p.id == "C08" {
                jpv::props::c08::arm_call_limit(jpv::props::c08::BULK_CALL_LIMIT);
            }
            let code = run_prop(p, &RunCfg { seed, thorough, write_evidence }, sub.as_deref());
            std::process::exit(code)
        }
        "replay" => {
            let p = match find(&args[2]) {
                Some(p) => p,
                None => std::process::exit(2),
            };
            if args.len() < 4 {
                usage();
            }
            std::process::exit(replay(p, &args[3]))
        }
        _ => usage(),
    }
}
