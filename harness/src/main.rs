use jpv::engine::{replay, run_prop, RunCfg};

fn usage() -> ! {
    eprintln!("usage: jpv run <Cxx> [--tier quick|thorough] [--sub NAME] | jpv replay <Cxx> <file>");
    std::process::exit(2)
}

fn main() {
    let args: Vec<String> = std::env::args().collect();
    if args.len() < 2 {
        usage();
    }
    let props = jpv::props::all();
    let find = |id: &str| props.iter().find(|p| p.id == id);
    let seed: u64 = std::env::var("VERIF_SEED")
        .ok()
        .and_then(|s| s.parse::<i64>().ok().map(|x| x as u64).or_else(|| s.parse::<u64>().ok()))
        .unwrap_or(20260926);
    match args[1].as_str() {
        "selftest" => match jpv::rfc::selftest() {
            Ok(n) => {
                println!("selftest ok: {} cases", n);
                std::process::exit(0)
            }
            Err(e) => {
                eprintln!("selftest FAILED: {}", e);
                std::process::exit(2)
            }
        },
        "dump-corpus" => {
            // seeds for the libFuzzer targets: RFC examples, valid and invalid
            let dir = std::path::PathBuf::from(&args[2]);
            let _ = std::fs::create_dir_all(dir.join("accrej"));
            let _ = std::fs::create_dir_all(dir.join("nopanic"));
            let mut n = 0;
            let mut all: Vec<String> = jpv::rfc::valid_queries();
            all.extend(jpv::rfc::invalid_queries().into_iter().map(|x| x.0));
            all.extend(jpv::rfc::eval_rows().into_iter().map(|r| r.query));
            for q in all {
                let _ = std::fs::write(dir.join("accrej").join(format!("seed{:04}", n)), q.as_bytes());
                let mut b = q.as_bytes().to_vec();
                b.push(0xFF);
                b.extend_from_slice(br#"{"a":[1,{"b":"x","a":[2,3]}],"b":{"a":null}}"#);
                let _ = std::fs::write(dir.join("nopanic").join(format!("seed{:04}", n)), b);
                n += 1;
            }
            println!("{} seeds", n);
            std::process::exit(0)
        }
        "once" => std::process::exit(jpv::props::c12::once_main()),
        "probe" => {
            let n: usize = args.get(3).and_then(|s| s.parse().ok()).unwrap_or(1);
            std::process::exit(jpv::props::c08::probe_main(&args[2], n))
        }
        "run" => {
            let p = match find(&args[2]) {
                Some(p) => p,
                None => {
                    eprintln!("unknown property {}", args[2]);
                    std::process::exit(2)
                }
            };
            let mut thorough = std::env::var("VERIF_TIER").map_or(false, |t| t == "thorough");
            let mut sub = None;
            let mut write_evidence = true;
            let mut i = 3;
            while i < args.len() {
                match args[i].as_str() {
                    "--tier" => {
                        thorough = args.get(i + 1).map_or(false, |t| t == "thorough");
                        i += 1;
                    }
                    "--no-evidence" => write_evidence = false,
                    "--sub" => {
                        sub = args.get(i + 1).cloned();
                        i += 1;
                    }
                    _ => usage(),
                }
                i += 1;
            }
            if p.id == "C08" {
                jpv::props::c08::arm_call_limit(jpv::props::c08::BULK_CALL_LIMIT);
            }
            let code = run_prop(p, &RunCfg { seed, thorough, write_evidence }, sub.as_deref());
            std::process::exit(code)
        }
        "replay" => {
            let p = match find(&args[2]) {
                Some(p) => p,
                None => std::process::exit(2),
            };
            if args.len() < 4 {
                usage();
            }
            std::process::exit(replay(p, &args[3]))
        }
        _ => usage(),
    }
}
