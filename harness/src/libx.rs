//! Adapter to the library under test: every call goes through here, guarded against panics, and
//! results are turned into locations by pointer identity.

use crate::ast::*;
use crate::engine::{guarded, in_flight};
use crate::json::*;
use jsonpath_rust::parser::model as m;
use jsonpath_rust::parser::parse_json_path;
use jsonpath_rust::query::js_path_process;
use jsonpath_rust::JsonPath;
use serde_json::Value;
use std::collections::HashMap;

#[derive(Clone, Debug, PartialEq)]
pub enum LibErr {
    /// the library returned `Err`
    Err(String),
    /// the library panicked
    Panic(String),
}

#[derive(Clone, Debug, PartialEq)]
pub struct LibNode {
    /// location of the returned reference inside the caller's document (None: not a node of it)
    pub loc: Option<Loc>,
    pub path: String,
    pub val: Value,
}

pub type LibRes = Result<Vec<LibNode>, LibErr>;

fn conv(v: &Value, map: &HashMap<usize, Loc>, r: Vec<jsonpath_rust::query::QueryRef<Value>>) -> Vec<LibNode> {
    let _ = v;
    r.into_iter()
        .map(|qr| {
            let val = qr.clone().val();
            let path = qr.path();
            LibNode {
                loc: map.get(&(val as *const Value as usize)).cloned(),
                path,
                val: val.clone(),
            }
        })
        .collect()
}

pub fn query_with_path(v: &Value, map: &HashMap<usize, Loc>, q: &str) -> LibRes {
    match in_flight(q, v, || guarded(|| v.query_with_path(q))) {
        Ok(Ok(r)) => Ok(conv(v, map, r)),
        Ok(Err(e)) => Err(LibErr::Err(e.to_string())),
        Err(p) => Err(LibErr::Panic(p)),
    }
}

pub fn query_vals(v: &Value, map: &HashMap<usize, Loc>, q: &str) -> Result<Vec<Option<Loc>>, LibErr> {
    match in_flight(q, v, || guarded(|| v.query(q))) {
        Ok(Ok(r)) => Ok(r
            .into_iter()
            .map(|x| map.get(&(x as *const Value as usize)).cloned())
            .collect()),
        Ok(Err(e)) => Err(LibErr::Err(e.to_string())),
        Err(p) => Err(LibErr::Panic(p)),
    }
}

pub fn query_paths(v: &Value, q: &str) -> Result<Vec<String>, LibErr> {
    match in_flight(q, v, || guarded(|| v.query_only_path(q))) {
        Ok(Ok(r)) => Ok(r),
        Ok(Err(e)) => Err(LibErr::Err(e.to_string())),
        Err(p) => Err(LibErr::Panic(p)),
    }
}

pub fn process(v: &Value, map: &HashMap<usize, Loc>, q: &m::JpQuery) -> LibRes {
    match in_flight(&q.to_string(), v, || guarded(|| js_path_process(q, v))) {
        Ok(Ok(r)) => Ok(conv(v, map, r)),
        Ok(Err(e)) => Err(LibErr::Err(e.to_string())),
        Err(p) => Err(LibErr::Panic(p)),
    }
}

pub fn parse(q: &str) -> Result<m::JpQuery, LibErr> {
    match in_flight(q, &Value::Null, || guarded(|| parse_json_path(q))) {
        Ok(Ok(r)) => Ok(r),
        Ok(Err(e)) => Err(LibErr::Err(e.to_string())),
        Err(p) => Err(LibErr::Panic(p)),
    }
}

// ------------------------------------------------------------------------------------------------
// harness AST -> library AST (the shapes `parse_json_path` itself produces)

fn name_text(n: &StrLit, dot: bool) -> String {
    if dot && is_shorthand(&n.val) {
        n.val.clone()
    } else {
        n.text()
    }
}

pub fn to_lib(q: &Query) -> m::JpQuery {
    m::JpQuery::new(q.segs.iter().map(seg).collect())
}

fn seg(s: &Seg) -> m::Segment {
    let dot = s.dot && s.can_dot();
    let inner = if s.sels.len() == 1 {
        m::Segment::Selector(sel(&s.sels[0], dot))
    } else {
        m::Segment::Selectors(s.sels.iter().map(|x| sel(x, false)).collect())
    };
    if s.desc {
        m::Segment::Descendant(Box::new(inner))
    } else {
        inner
    }
}

fn sel(s: &Sel, dot: bool) -> m::Selector {
    match s {
        Sel::Name(n) => m::Selector::Name(name_text(n, dot)),
        Sel::Wild => m::Selector::Wildcard,
        Sel::Index(i) => m::Selector::Index(*i),
        Sel::Slice(a, b, c, _) => m::Selector::Slice(*a, *b, *c),
        Sel::Filter(e) => m::Selector::Filter(expr(e)),
    }
}

fn expr(e: &Expr) -> m::Filter {
    match e {
        Expr::Or(xs) => m::Filter::Or(xs.iter().map(expr).collect()),
        Expr::And(xs) => m::Filter::And(xs.iter().map(expr).collect()),
        Expr::Paren(not, x) => m::Filter::Atom(m::FilterAtom::filter(expr(x), *not)),
        Expr::Cmp(l, op, r) => {
            let (l, r) = (cmpable(l), cmpable(r));
            m::Filter::Atom(m::FilterAtom::cmp(Box::new(match op {
                Op::Eq => m::Comparison::Eq(l, r),
                Op::Ne => m::Comparison::Ne(l, r),
                Op::Lt => m::Comparison::Lt(l, r),
                Op::Le => m::Comparison::Lte(l, r),
                Op::Gt => m::Comparison::Gt(l, r),
                Op::Ge => m::Comparison::Gte(l, r),
            })))
        }
        Expr::Test(not, t) => m::Filter::Atom(m::FilterAtom::test(test(t), *not)),
    }
}

fn test(t: &TestE) -> m::Test {
    match t {
        TestE::Q(q) => query_test(q),
        TestE::F(f) => m::Test::Function(Box::new(func(f))),
    }
}

fn query_test(q: &Query) -> m::Test {
    if q.abs {
        m::Test::AbsQuery(to_lib(q))
    } else {
        m::Test::RelQuery(q.segs.iter().map(seg).collect())
    }
}

fn lit(l: &Lit) -> m::Literal {
    match l {
        Lit::Null => m::Literal::Null,
        Lit::Bool(b) => m::Literal::Bool(*b),
        Lit::Num(n) => {
            if n.int_text {
                m::Literal::Int(n.val as i64)
            } else {
                m::Literal::Float(n.val)
            }
        }
        Lit::Str(s) => m::Literal::String(s.raw.clone()),
    }
}

fn cmpable(c: &Cmpable) -> m::Comparable {
    match c {
        Cmpable::Lit(l) => m::Comparable::Literal(lit(l)),
        Cmpable::Sing(s) => {
            let segs = s
                .steps
                .iter()
                .map(|st| match st {
                    SingStep::Name(n, dot) => m::SingularQuerySegment::Name(name_text(n, *dot)),
                    SingStep::Index(i) => m::SingularQuerySegment::Index(*i),
                })
                .collect();
            m::Comparable::SingularQuery(if s.abs {
                m::SingularQuery::Root(segs)
            } else {
                m::SingularQuery::Current(segs)
            })
        }
        Cmpable::F(f) => m::Comparable::Function(func(f)),
    }
}

fn arg(a: &Arg) -> m::FnArg {
    match a {
        Arg::Lit(l) => m::FnArg::Literal(lit(l)),
        Arg::Q(q) => m::FnArg::Test(Box::new(query_test(q))),
        Arg::E(e) => m::FnArg::Filter(expr(e)),
        Arg::F(f) => m::FnArg::Test(Box::new(m::Test::Function(Box::new(func(f))))),
    }
}

fn func(f: &Func) -> m::TestFunction {
    let a: Vec<m::FnArg> = f.args.iter().map(arg).collect();
    match (f.name.as_str(), a.as_slice()) {
        ("length", [x]) => m::TestFunction::Length(Box::new(x.clone())),
        ("value", [x]) => m::TestFunction::Value(x.clone()),
        ("count", [x]) => m::TestFunction::Count(x.clone()),
        ("search", [x, y]) => m::TestFunction::Search(x.clone(), y.clone()),
        ("match", [x, y]) => m::TestFunction::Match(x.clone(), y.clone()),
        _ => m::TestFunction::Custom(f.name.clone(), a),
    }
}
