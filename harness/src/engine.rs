//! Check engine: proptest-driven random search over choice sequences (sharded, seeded, shrinking),
//! exhaustive enumerators, regression/replay tier, known-findings file, evidence, exit codes.

use crate::oracle::{Quirks, QUIRK_NAMES};
use crate::src::{mix, Src};
use proptest::prelude::*;
use proptest::test_runner::{Config, RngSeed, TestCaseError, TestError, TestRunner};
use serde_json::{json, Value};
use std::cell::{Cell, RefCell};
use std::collections::hash_map::DefaultHasher;
use std::collections::{BTreeMap, HashSet};
use std::hash::{Hash, Hasher};
use std::path::PathBuf;
use std::sync::OnceLock;

pub const SHARDS: u64 = 16;
/// wall-clock bound on shrinking one failure (shrinking only improves the report, never the verdict)
pub const SHRINK_BUDGET_S: u64 = 45;

#[derive(Clone, Debug)]
pub struct Failure {
    pub msg: String,
    pub case: Value,
    /// the harness contradicts itself (generator vs recogniser, oracle vs Boolean model): exit 2, never a violation
    pub harness: bool,
}

impl Failure {
    pub fn new(msg: impl Into<String>, case: Value) -> Failure {
        let msg: String = msg.into();
        let harness = msg.starts_with("harness inconsistency");
        Failure {
            msg,
            case,
            harness,
        }
    }
}

pub type Res = Result<(), Failure>;

/// what a run observed; merged over shards
#[derive(Default, Clone)]
pub struct Obs {
    pub counting: bool,
    pub evaluations: u64,
    pub cases: u64,
    pub nontrivial: HashSet<u64>,
    pub labels: BTreeMap<String, u64>,
    pub samples: Vec<Value>,
    pub known: BTreeMap<String, u64>,
    pub known_samples: BTreeMap<String, Value>,
    pub not_judged: BTreeMap<String, u64>,
    pub boxes: Vec<Value>,
    pub max_samples: usize,
}

impl Obs {
    pub fn new() -> Obs {
        Obs {
            counting: true,
            max_samples: 4,
            ..Default::default()
        }
    }
    pub fn eval(&mut self, n: u64) {
        if self.counting {
            self.evaluations += n;
        }
    }
    pub fn label(&mut self, l: &str) {
        if self.counting {
            *self.labels.entry(l.to_string()).or_insert(0) += 1;
        }
    }
    pub fn label_n(&mut self, l: &str, n: u64) {
        if self.counting {
            *self.labels.entry(l.to_string()).or_insert(0) += n;
        }
    }
    pub fn not_judged(&mut self, l: &str) {
        if self.counting {
            *self.not_judged.entry(l.to_string()).or_insert(0) += 1;
        }
    }
    /// record a non-trivial case; `key` identifies it, `sample` is only built for the first few
    pub fn nontrivial<K: Hash>(&mut self, key: &K, sample: impl FnOnce() -> Value) {
        if !self.counting {
            return;
        }
        let mut h = DefaultHasher::new();
        key.hash(&mut h);
        let fresh = self.nontrivial.insert(h.finish());
        if fresh && self.samples.len() < self.max_samples {
            self.samples.push(sample());
        }
    }
    pub fn known(&mut self, id: &str, sample: impl FnOnce() -> Value) {
        if !self.counting {
            return;
        }
        *self.known.entry(id.to_string()).or_insert(0) += 1;
        if !self.known_samples.contains_key(id) {
            self.known_samples.insert(id.to_string(), sample());
        }
    }
    pub fn merge(&mut self, o: Obs) {
        self.evaluations += o.evaluations;
        self.cases += o.cases;
        self.nontrivial.extend(o.nontrivial);
        for (k, v) in o.labels {
            *self.labels.entry(k).or_insert(0) += v;
        }
        for (k, v) in o.known {
            *self.known.entry(k).or_insert(0) += v;
        }
        for (k, v) in o.known_samples {
            self.known_samples.entry(k).or_insert(v);
        }
        for (k, v) in o.not_judged {
            *self.not_judged.entry(k).or_insert(0) += v;
        }
        for s in o.samples {
            if self.samples.len() < 12 {
                self.samples.push(s);
            }
        }
        self.boxes.extend(o.boxes);
    }
}

pub type RandomFn = fn(&mut Src, &mut Obs) -> Res;
pub type ExhaustiveFn = fn(&mut Obs, bool) -> Res;
/// replays one explicit case (from /verif/regress, KNOWN_FINDINGS.txt or a replay file)
pub type DirectFn = fn(&Value, &mut Obs) -> Res;

pub enum Kind {
    Random {
        f: RandomFn,
        quick: u64,
        thorough: u64,
        len: usize,
    },
    Exhaustive(ExhaustiveFn),
}

pub struct Sub {
    pub name: &'static str,
    pub kind: Kind,
}

pub struct Prop {
    pub id: &'static str,
    pub rule: &'static str,
    pub assumptions: Vec<&'static str>,
    pub subs: Vec<Sub>,
    pub direct: Option<DirectFn>,
    /// harness self-tests (oracle / recogniser against RFC tables); a failure is exit 2
    pub selftest: Option<fn() -> Result<u64, String>>,
    /// coverage-guided stage of the thorough tier (cargo-fuzz / libFuzzer)
    pub fuzz: Option<FuzzSpec>,
    /// thorough tier: run the quick tier again in the `preserve_order` build
    pub insertion_order_stage: bool,
}

#[derive(Clone)]
pub struct FuzzSpec {
    pub target: &'static str,
    /// executions per job (16 jobs)
    pub runs: u64,
    pub max_len: u32,
    /// only crashes whose message starts with this tag belong to the property (others are reported on stderr)
    pub tag: &'static str,
    pub seed_corpus: Option<&'static str>,
}

// ------------------------------------------------------------------------------------------------
// known findings

#[derive(Clone, Debug)]
pub struct Finding {
    pub property: String,
    pub id: String,
    pub sig: String,
    pub input: Value,
    pub text: String,
}

pub struct Findings {
    pub open: Vec<Finding>,
    pub fixed: Vec<String>,
}

static FINDINGS: OnceLock<Findings> = OnceLock::new();
static VERIF_DIR: OnceLock<PathBuf> = OnceLock::new();

pub fn verif_dir() -> PathBuf {
    VERIF_DIR
        .get_or_init(|| {
            if let Ok(d) = std::env::var("VERIF_DIR") {
                return PathBuf::from(d);
            }
            // the binary lives in <verif>/harness/target/release/jpv
            let exe = std::env::current_exe().unwrap_or_default();
            let mut p = exe.clone();
            for _ in 0..4 {
                p.pop();
            }
            if p.join("properties.jsonl").exists() {
                p
            } else {
                PathBuf::from("/verif")
            }
        })
        .clone()
}

pub fn findings() -> &'static Findings {
    FINDINGS.get_or_init(|| {
        let path = verif_dir().join("KNOWN_FINDINGS.txt");
        let text = std::fs::read_to_string(&path).unwrap_or_default();
        let mut open = vec![];
        let mut fixed = vec![];
        for line in text.lines() {
            let line = line.trim();
            if line.starts_with('#') || line.is_empty() {
                continue;
            }
            if let Some(rest) = line.strip_prefix("fixed:") {
                fixed.push(rest.trim().to_string());
            } else if let Some(rest) = line.strip_prefix("open:") {
                let (head, text) = match rest.split_once(" :: ") {
                    Some((a, b)) => (a, b.trim().to_string()),
                    None => (rest, String::new()),
                };
                let field = |name: &str| -> String {
                    let pat = format!("{}=", name);
                    head.find(&pat)
                        .map(|i| {
                            let s = &head[i + pat.len()..];
                            s.split_whitespace().next().unwrap_or("").to_string()
                        })
                        .unwrap_or_default()
                };
                let input = head
                    .find("input=")
                    .map(|i| head[i + 6..].trim())
                    .and_then(|s| serde_json::from_str::<Value>(s).ok())
                    .unwrap_or(Value::Null);
                open.push(Finding {
                    property: field("property"),
                    id: field("id"),
                    sig: field("sig"),
                    input,
                    text,
                });
            }
        }
        Findings { open, fixed }
    })
}

/// bit mask of the oracle quirks that are listed as open findings for this property
pub fn open_quirks(prop: &str) -> u32 {
    let mut bits = 0;
    for f in &findings().open {
        if f.property == prop {
            if let Some(q) = f.sig.strip_prefix("quirk:") {
                for name in q.split('+') {
                    if let Some(i) = QUIRK_NAMES.iter().position(|n| *n == name) {
                        bits |= 1 << i;
                    }
                }
            }
        }
    }
    bits
}

/// is a class signature listed as open for this property?
pub fn open_class(prop: &str, class: &str) -> Option<&'static Finding> {
    findings()
        .open
        .iter()
        .find(|f| f.property == prop && f.sig == format!("class:{}", class))
}

pub fn finding_ids_for_bits(prop: &str, bits: u32) -> Vec<String> {
    let names = Quirks::names(bits);
    findings()
        .open
        .iter()
        .filter(|f| {
            f.property == prop
                && f.sig
                    .strip_prefix("quirk:")
                    .map_or(false, |q| q.split('+').any(|n| names.contains(&n)))
        })
        .map(|f| f.id.clone())
        .collect()
}

pub enum Attribution {
    Strict,
    Known(u32),
    Unexplained,
}

/// Compare the library's observable `got` with the oracle's under strict semantics; if different,
/// search the subsets of the *open* quirks of this property (smallest first) for one that explains
/// it exactly.
pub fn attribute<X: PartialEq>(prop: &str, got: &X, oracle: impl Fn(&Quirks) -> X) -> Attribution {
    if oracle(&Quirks::strict()) == *got {
        return Attribution::Strict;
    }
    let open = open_quirks(prop);
    if open == 0 {
        return Attribution::Unexplained;
    }
    let mut subsets: Vec<u32> = (1..64u32).filter(|b| b & !open == 0).collect();
    subsets.sort_by_key(|b| b.count_ones());
    for b in subsets {
        if oracle(&Quirks::from_bits(b)) == *got {
            return Attribution::Known(b);
        }
    }
    Attribution::Unexplained
}

// ------------------------------------------------------------------------------------------------
// hang watchdog: every library call is bracketed by `Flight`; a monitor thread reports a call that
// has been in flight for longer than the limit

pub struct Slot {
    pub since: Option<std::time::Instant>,
    pub q: *const str,
    pub doc: *const Value,
}
unsafe impl Send for Slot {}

static SLOTS: OnceLock<std::sync::Mutex<Vec<std::sync::Arc<std::sync::Mutex<Slot>>>>> = OnceLock::new();
static CURRENT_PROP: OnceLock<String> = OnceLock::new();

thread_local! {
    static MY_SLOT: std::sync::Arc<std::sync::Mutex<Slot>> = {
        let s = std::sync::Arc::new(std::sync::Mutex::new(Slot { since: None, q: "" as *const str, doc: std::ptr::null() }));
        SLOTS.get_or_init(|| std::sync::Mutex::new(vec![])).lock().unwrap().push(s.clone());
        s
    };
}

/// run a library call with the hang monitor armed
// ------------------------------------------------------------------------------------------------
// breadcrumbs: what was in flight when the process died

thread_local! {
    static CRUMB: std::cell::RefCell<Option<std::fs::File>> = const { std::cell::RefCell::new(None) };
}
static CRUMB_SEQ: std::sync::atomic::AtomicUsize = std::sync::atomic::AtomicUsize::new(0);

/// documents beyond this size are not copied into the breadcrumb (only the query and the size are)
const CRUMB_DOC_LIMIT: usize = 64 << 10;

/// When the supervising process asked for it (JPV_CRUMBS = a directory), every library call leaves its
/// input in a per-thread file before it starts and clears it when it returns; a call that takes the whole
/// process down (stack overflow, abort) is then still known to the supervisor.
fn crumb_write(q: Option<(&str, &Value)>) {
    use std::os::unix::fs::FileExt;
    static DIR: OnceLock<Option<PathBuf>> = OnceLock::new();
    let dir = DIR.get_or_init(|| std::env::var("JPV_CRUMBS").ok().map(PathBuf::from));
    let dir = match dir {
        Some(d) => d,
        None => return,
    };
    CRUMB.with(|c| {
        let mut c = c.borrow_mut();
        if c.is_none() {
            let n = CRUMB_SEQ.fetch_add(1, std::sync::atomic::Ordering::Relaxed);
            *c = std::fs::OpenOptions::new().create(true).read(true).write(true).open(dir.join(format!("p{}-t{}.crumb", std::process::id(), n))).ok();
        }
        if let Some(f) = c.as_ref() {
            match q {
                None => {
                    let _ = f.write_all_at(&0u32.to_le_bytes(), 0);
                }
                Some((q, doc)) => {
                    let mut body = serde_json::to_vec(&json!({"query": q})).unwrap_or_default();
                    // {"query":...} + ,"doc":...}
                    let doc_text = serde_json::to_vec(doc).unwrap_or_default();
                    if doc_text.len() <= CRUMB_DOC_LIMIT {
                        body.pop();
                        body.extend_from_slice(b",\"doc\":");
                        body.extend_from_slice(&doc_text);
                        body.push(b'}');
                    } else if let Some(shape) = big_doc_shape(doc) {
                        // too large to copy at every call, but regular: the long arrays of the boxes
                        body.pop();
                        body.extend_from_slice(b",\"doc_shape\":");
                        body.extend_from_slice(&serde_json::to_vec(&shape).unwrap_or_default());
                        body.push(b'}');
                    }
                    let _ = f.write_all_at(&body, 4);
                    let _ = f.write_all_at(&(body.len() as u32).to_le_bytes(), 0);
                }
            }
        }
    });
}

/// `[0, 1, .. n-1]`, alone or as the only member of an object: described instead of copied
fn big_doc_shape(doc: &Value) -> Option<Value> {
    fn iota(v: &Value) -> Option<usize> {
        let a = v.as_array()?;
        if a.iter().enumerate().all(|(i, x)| x.as_i64() == Some(i as i64)) {
            Some(a.len())
        } else {
            None
        }
    }
    if let Some(n) = iota(doc) {
        return Some(json!({"iota": n}));
    }
    let m = doc.as_object()?;
    if m.len() == 1 {
        let (k, v) = m.iter().next()?;
        return iota(v).map(|n| json!({"iota": n, "under": k}));
    }
    None
}

fn doc_of_shape(shape: &Value) -> Option<Value> {
    let n = shape["iota"].as_u64()? as usize;
    let arr = Value::Array((0..n as i64).map(|i| json!(i)).collect());
    Some(match shape["under"].as_str() {
        Some(k) => json!({ k: arr }),
        None => arr,
    })
}

/// the inputs that were in flight when a supervised run died (read by the supervisor)
pub fn read_crumbs(dir: &std::path::Path) -> Vec<Value> {
    let mut out = vec![];
    if let Ok(rd) = std::fs::read_dir(dir) {
        for e in rd.flatten() {
            if let Ok(bytes) = std::fs::read(e.path()) {
                if bytes.len() >= 4 {
                    let n = u32::from_le_bytes([bytes[0], bytes[1], bytes[2], bytes[3]]) as usize;
                    if n > 0 && bytes.len() >= 4 + n {
                        if let Ok(text) = std::str::from_utf8(&bytes[4..4 + n]) {
                            if let Ok(mut v) = crate::json::parse_json_unbounded(text) {
                                if v.get("doc").is_none() {
                                    if let Some(d) = v.get("doc_shape").and_then(doc_of_shape) {
                                        v["doc"] = d;
                                    }
                                }
                                out.push(v);
                            }
                        }
                    }
                }
            }
        }
    }
    out
}

pub fn in_flight<T>(q: &str, doc: &Value, f: impl FnOnce() -> T) -> T {
    crumb_write(Some((q, doc)));
    let r = in_flight_inner(q, doc, f);
    crumb_write(None);
    r
}

fn in_flight_inner<T>(q: &str, doc: &Value, f: impl FnOnce() -> T) -> T {
    MY_SLOT.with(|s| {
        let mut g = s.lock().unwrap();
        g.since = Some(std::time::Instant::now());
        g.q = q as *const str;
        g.doc = doc as *const Value;
    });
    let r = f();
    MY_SLOT.with(|s| {
        let mut g = s.lock().unwrap();
        g.since = None;
    });
    r
}

pub const HANG_LIMIT_S: u64 = 40;

fn start_watchdog() {
    std::thread::spawn(|| loop {
        std::thread::sleep(std::time::Duration::from_millis(500));
        let slots = match SLOTS.get() {
            Some(s) => s.lock().unwrap().clone(),
            None => continue,
        };
        for s in slots {
            let g = s.lock().unwrap();
            if let Some(t) = g.since {
                if t.elapsed().as_secs() >= HANG_LIMIT_S {
                    // the owning thread is still inside the call, so the pointers are alive
                    let (q, doc) = unsafe { ((&*g.q).to_string(), (&*g.doc).clone()) };
                    let prop = CURRENT_PROP.get().cloned().unwrap_or_default();
                    let f = Failure::new(
                        format!("a library call did not return within {} s (the reference evaluation of such a case takes microseconds)", HANG_LIMIT_S),
                        json!({"query": q, "doc": doc}),
                    );
                    let path = write_replay(&prop, "hang", 0, None, &f);
                    if prop == "C08" || prop == "C11" {
                        println!("VIOLATION property={} replay={}", prop, path);
                        eprintln!("  {}", f.msg);
                        eprintln!("  case: {}", f.case);
                        std::process::exit(1);
                    } else {
                        eprintln!("{}: a library call hangs ({}); termination is property C08's business, this check cannot decide (replay {})", prop, f.msg, path);
                        std::process::exit(2);
                    }
                }
            }
        }
    });
}

// ------------------------------------------------------------------------------------------------
// panic capture

thread_local! {
    static LAST_PANIC: RefCell<Option<String>> = RefCell::new(None);
}

pub fn install_quiet_panic_hook() {
    std::panic::set_hook(Box::new(|info| {
        let msg = if let Some(s) = info.payload().downcast_ref::<&str>() {
            s.to_string()
        } else if let Some(s) = info.payload().downcast_ref::<String>() {
            s.clone()
        } else {
            "panic".to_string()
        };
        let loc = info
            .location()
            .map(|l| format!("{}:{}", l.file(), l.line()))
            .unwrap_or_default();
        LAST_PANIC.with(|p| *p.borrow_mut() = Some(format!("{} at {}", msg, loc)));
    }));
}

pub fn take_panic() -> Option<String> {
    LAST_PANIC.with(|p| p.borrow_mut().take())
}

/// run a closure that calls into the library; a panic becomes an `Err(message)`
pub fn guarded<T>(f: impl FnOnce() -> T) -> Result<T, String> {
    match std::panic::catch_unwind(std::panic::AssertUnwindSafe(f)) {
        Ok(v) => Ok(v),
        Err(_) => Err(take_panic().unwrap_or_else(|| "panic".into())),
    }
}

// ------------------------------------------------------------------------------------------------
// running

pub struct RunCfg {
    pub seed: u64,
    pub thorough: bool,
    pub write_evidence: bool,
}

pub struct Violation {
    pub sub: String,
    pub failure: Failure,
    pub choices: Option<Vec<u32>>,
}

fn run_case(f: RandomFn, choices: &[u32], obs: &mut Obs) -> Res {
    crate::oracle::reset();
    crate::regexo::take_gave_up();
    let mut src = Src::new(choices);
    let r = guarded(|| f(&mut src, obs));
    if src.used() > choices.len() {
        // the generators wanted more choices than the sequence holds (the rest was answered with 0)
        obs.label("choice-sequence-exhausted");
    }
    // a reference evaluation of this case ran out of its step budget: whatever was derived from it is
    // unreliable, the case gives no verdict
    // (the reference matcher of regular expressions has a budget of its own: a pattern such as `((.||)*)*a` on a
    // string of 64 characters exhausts it, and the answer it then gave is meaningless)
    let matcher_gave_up = crate::regexo::take_gave_up();
    if crate::oracle::take_gave_up() || matcher_gave_up {
        obs.label("reference-step-budget-exceeded(case discarded)");
        return Ok(());
    }
    match r {
        Ok(r) => r,
        Err(p) => Err(Failure::new(
            format!("panic while checking the case: {}", p),
            json!({}),
        )),
    }
}

fn run_shard(prop: &str, sub: &str, f: RandomFn, cases: u32, len: usize, seed: u64, shard: u64) -> (Obs, Option<(Vec<u32>, Failure)>) {
    let s = mix(seed, &format!("{}/{}", prop, sub), shard);
    let mut seed_bytes = [0u8; 32];
    for i in 0..4 {
        seed_bytes[i * 8..i * 8 + 8].copy_from_slice(&mix(s, "seed", i as u64).to_le_bytes());
    }
    let _ = seed_bytes;
    let config = Config {
        cases,
        failure_persistence: None,
        rng_seed: RngSeed::Fixed(s),
        max_shrink_iters: 60_000,
        max_global_rejects: 1,
        ..Config::default()
    };
    let mut runner = TestRunner::new(config);
    let strat = proptest::collection::vec(any::<u32>(), (len / 2)..=len);
    let obs = RefCell::new(Obs::new());
    let failed = Cell::new(false);
    let first_failure: RefCell<Option<(Vec<u32>, Failure)>> = RefCell::new(None);
    let shrink_started: Cell<Option<std::time::Instant>> = Cell::new(None);
    let r = runner.run(&strat, |choices| {
        let mut o = obs.borrow_mut();
        o.counting = !failed.get();
        if o.counting {
            o.cases += 1;
        }
        // shrinking is bounded by wall-clock too: when the budget is spent every candidate "passes",
        // which ends proptest's shrinking with the best case found so far
        if let Some(t) = shrink_started.get() {
            if t.elapsed().as_secs() > SHRINK_BUDGET_S {
                return Ok(());
            }
        }
        match run_case(f, &choices, &mut o) {
            Ok(()) => Ok(()),
            Err(e) => {
                if !failed.get() {
                    failed.set(true);
                    shrink_started.set(Some(std::time::Instant::now()));
                    *first_failure.borrow_mut() = Some((choices.clone(), e.clone()));
                }
                Err(TestCaseError::fail(e.msg))
            }
        }
    });
    let mut obs = obs.into_inner();
    match r {
        Ok(()) => (obs, None),
        Err(TestError::Fail(_, minimal)) => {
            obs.counting = false;
            let fail = match run_case(f, &minimal, &mut obs).err() {
                Some(e) => e,
                None => {
                    // the failure depends on more than the case (history, schedule): report it as first seen
                    let (c0, mut f0) = first_failure.into_inner().unwrap_or((minimal.clone(), Failure::new("failure did not reproduce", json!({}))));
                    f0.msg = format!("{} [not reproducible from the case alone: it depends on what ran before or beside it]", f0.msg);
                    return (obs, Some((c0, f0)));
                }
            };
            let t_shrink = std::time::Instant::now();
            // continue with the harness' own choice-sequence shrinker (deletes spans, lowers values)
            let minimal = shrink_choices(minimal, 40_000, &mut |c: &[u32]| {
                if t_shrink.elapsed().as_secs() > SHRINK_BUDGET_S {
                    return false;
                }
                let mut o = Obs::new();
                o.counting = false;
                run_case(f, c, &mut o).is_err()
            });
            let fail = run_case(f, &minimal, &mut obs).err().unwrap_or(fail);
            // trim unused tail of the choice sequence
            let mut src_len = minimal.len();
            {
                let mut probe = Obs::new();
                probe.counting = false;
                let mut src = Src::new(&minimal);
                let _ = guarded(|| f(&mut src, &mut probe));
                src_len = src_len.min(src.used());
            }
            let mut m = minimal.clone();
            m.truncate(src_len);
            (obs, Some((m, fail)))
        }
        Err(TestError::Abort(reason)) => (
            obs,
            Some((
                vec![],
                Failure::new(format!("proptest aborted: {}", reason), json!({})),
            )),
        ),
    }
}

/// Shrink a failing choice sequence towards the shortlex minimum: delete spans (which removes
/// generated structure), zero and lower single choices, lower a choice while deleting what follows
/// (a smaller count needs fewer later choices).  `fails` must be true for the input.
pub fn shrink_choices(mut cur: Vec<u32>, budget: u64, fails: &mut dyn FnMut(&[u32]) -> bool) -> Vec<u32> {
    let mut spent = 0u64;
    let mut try_it = |cand: &Vec<u32>, spent: &mut u64| -> bool {
        *spent += 1;
        fails(cand)
    };
    // drop trailing zeros: an exhausted source answers 0 anyway
    while cur.last() == Some(&0) {
        cur.pop();
    }
    loop {
        let before = cur.clone();
        // 1. delete spans
        for k in [32usize, 16, 8, 4, 3, 2, 1] {
            let mut i = cur.len();
            while i > 0 && spent < budget {
                i -= 1;
                if i + k > cur.len() {
                    continue;
                }
                let mut cand = cur.clone();
                cand.drain(i..i + k);
                if try_it(&cand, &mut spent) {
                    cur = cand;
                }
            }
        }
        // 2. zero spans
        for k in [8usize, 4, 2] {
            let mut i = 0;
            while i + k <= cur.len() && spent < budget {
                if cur[i..i + k].iter().any(|x| *x != 0) {
                    let mut cand = cur.clone();
                    for x in &mut cand[i..i + k] {
                        *x = 0;
                    }
                    if try_it(&cand, &mut spent) {
                        cur = cand;
                    }
                }
                i += k;
            }
        }
        // 3. lower single choices (binary search towards 0)
        for i in 0..cur.len() {
            if cur[i] == 0 || spent >= budget {
                continue;
            }
            let mut cand = cur.clone();
            cand[i] = 0;
            if try_it(&cand, &mut spent) {
                cur = cand;
                continue;
            }
            let (mut lo, mut hi) = (0u32, cur[i]);
            // invariant: `hi` fails, `lo` does not
            while hi - lo > (hi >> 6).max(1) && spent < budget {
                let mid = lo + (hi - lo) / 2;
                let mut cand = cur.clone();
                cand[i] = mid;
                if try_it(&cand, &mut spent) {
                    hi = mid;
                } else {
                    lo = mid;
                }
            }
            cur[i] = hi;
        }
        // 4. lower a choice and delete a following span
        for i in 0..cur.len() {
            if spent >= budget {
                break;
            }
            if i >= cur.len() || cur[i] == 0 {
                continue;
            }
            for k in [1usize, 2, 3, 4, 6, 8, 12] {
                if i + 1 + k > cur.len() {
                    break;
                }
                for v in [0u32, cur[i] / 2, cur[i] - cur[i] / 4] {
                    let mut cand = cur.clone();
                    cand[i] = v;
                    cand.drain(i + 1..i + 1 + k);
                    if try_it(&cand, &mut spent) {
                        cur = cand;
                        break;
                    }
                }
                if i >= cur.len() || cur[i] == 0 {
                    break;
                }
            }
        }
        while cur.last() == Some(&0) {
            cur.pop();
        }
        if cur == before || spent >= budget {
            break;
        }
    }
    cur
}

pub fn run_random(prop: &str, sub: &str, f: RandomFn, cases: u64, len: usize, seed: u64) -> (Obs, Option<(Vec<u32>, Failure)>) {
    let per = ((cases + SHARDS - 1) / SHARDS) as u32;
    let results: Vec<(Obs, Option<(Vec<u32>, Failure)>)> = std::thread::scope(|sc| {
        let hs: Vec<_> = (0..SHARDS)
            .map(|shard| {
                let prop = prop.to_string();
                let sub = sub.to_string();
                std::thread::Builder::new()
                    .stack_size(64 << 20)
                    .spawn_scoped(sc, move || run_shard(&prop, &sub, f, per, len, seed, shard))
                    .expect("spawn")
            })
            .collect();
        hs.into_iter()
            .map(|h| {
                h.join().unwrap_or_else(|_| {
                    (
                        Obs::new(),
                        Some((vec![], Failure::new("shard thread died", json!({})))),
                    )
                })
            })
            .collect()
    });
    let mut total = Obs::new();
    let mut first = None;
    for (o, f) in results {
        total.merge(o);
        if first.is_none() {
            first = f;
        }
    }
    (total, first)
}

fn hash_str(s: &str) -> String {
    let mut h = DefaultHasher::new();
    s.hash(&mut h);
    format!("{:016x}", h.finish())
}

pub fn write_replay(prop: &str, sub: &str, seed: u64, choices: Option<&[u32]>, f: &Failure) -> String {
    let dir = verif_dir().join("replays");
    let _ = std::fs::create_dir_all(&dir);
    let body = json!({
        "property": prop,
        "sub": sub,
        "seed": seed,
        "choices": choices,
        "message": f.msg,
        "case": f.case,
    });
    let text = serde_json::to_string_pretty(&body).unwrap_or_default();
    let name = format!("{}-{}-{}.json", prop, sub, &hash_str(&format!("{}{:?}", f.case, choices))[..10]);
    let path = dir.join(name);
    let _ = std::fs::write(&path, text);
    path.to_string_lossy().to_string()
}

pub struct Outcome {
    pub violations: Vec<String>,
    pub exit: i32,
}

/// regression tier: committed cases under /verif/regress/<prop>/*.json and the canonical inputs of
/// the open findings; prints KNOWN-FINDING lines
fn regress_tier(p: &Prop, obs: &mut Obs, out: &mut Vec<(String, Failure)>) -> u64 {
    let mut n = 0;
    let direct = match p.direct {
        Some(d) => d,
        None => return 0,
    };
    let dir = verif_dir().join("regress").join(p.id);
    let mut files: Vec<PathBuf> = std::fs::read_dir(&dir)
        .map(|rd| rd.filter_map(|e| e.ok().map(|e| e.path())).collect())
        .unwrap_or_default();
    files.sort();
    for f in files {
        if f.extension().map_or(true, |e| e != "json") {
            continue;
        }
        let text = std::fs::read_to_string(&f).unwrap_or_default();
        let v: Value = match serde_json::from_str(&text) {
            Ok(v) => v,
            Err(e) => {
                eprintln!("regress file {} unreadable: {}", f.display(), e);
                continue;
            }
        };
        let cases: Vec<Value> = match v {
            Value::Array(a) => a,
            x => vec![x],
        };
        for c in cases {
            n += 1;
            let r = guarded(|| direct(&c, obs)).unwrap_or_else(|p| Err(Failure::new(format!("panic: {}", p), c.clone())));
            if let Err(mut e) = r {
                e.msg = format!("regression case {}: {}", f.file_name().unwrap_or_default().to_string_lossy(), e.msg);
                out.push(("regress".to_string(), e));
            }
        }
    }
    // canonical inputs of the open findings of this property: must still be attributed
    for f in &findings().open {
        if f.property != p.id || f.input.is_null() {
            continue;
        }
        n += 1;
        let before = obs.known.get(&f.id).copied().unwrap_or(0);
        let r = guarded(|| direct(&f.input, obs)).unwrap_or_else(|p| Err(Failure::new(format!("panic: {}", p), f.input.clone())));
        match r {
            Err(mut e) => {
                e.msg = format!("canonical input of known finding {} fails in a way the finding does not explain: {}", f.id, e.msg);
                out.push(("regress".to_string(), e));
            }
            Ok(()) => {
                if obs.known.get(&f.id).copied().unwrap_or(0) == before {
                    eprintln!("note: known finding {} ({}) no longer reproduces on its canonical input; KNOWN_FINDINGS.txt may be stale", f.id, p.id);
                }
            }
        }
    }
    n
}

pub fn run_prop(p: &Prop, cfg: &RunCfg, only_sub: Option<&str>) -> i32 {
    let t0 = std::time::Instant::now();
    install_quiet_panic_hook();
    let _ = CURRENT_PROP.set(p.id.to_string());
    if p.id == "C10" {
        crate::regexo::allow_quotes();
    }
    start_watchdog();
    // self tests first: a failure means the harness is wrong, never the library
    let mut selftests = 0;
    if let Some(st) = p.selftest {
        match guarded(st) {
            Ok(Ok(n)) => selftests = n,
            Ok(Err(e)) => {
                eprintln!("HARNESS SELF-TEST FAILED ({}): {}", p.id, e);
                return 2;
            }
            Err(e) => {
                eprintln!("HARNESS SELF-TEST PANICKED ({}): {}", p.id, e);
                return 2;
            }
        }
    }
    let mut total = Obs::new();
    let mut violations: Vec<(String, Failure, Option<Vec<u32>>)> = vec![];
    let mut per_sub = vec![];

    // regression tier
    let mut reg_fail = vec![];
    let mut reg_obs = Obs::new();
    let nreg = regress_tier(p, &mut reg_obs, &mut reg_fail);
    for (s, f) in reg_fail {
        violations.push((s, f, None));
    }
    per_sub.push(json!({"sub": "regress", "cases": nreg}));
    total.merge(reg_obs);

    for sub in &p.subs {
        if let Some(o) = only_sub {
            if o != sub.name {
                continue;
            }
        }
        let ts = std::time::Instant::now();
        match &sub.kind {
            Kind::Random { f, quick, thorough, len } => {
                let cases = if cfg.thorough { *thorough } else { *quick };
                let (obs, fail) = run_random(p.id, sub.name, *f, cases, *len, cfg.seed);
                per_sub.push(json!({"sub": sub.name, "kind": "random", "cases": obs.cases, "evaluations": obs.evaluations,
                    "distinct_nontrivial": obs.nontrivial.len(), "wall_s": ts.elapsed().as_secs_f64()}));
                total.merge(obs);
                if let Some((choices, f)) = fail {
                    violations.push((sub.name.to_string(), f, Some(choices)));
                }
            }
            Kind::Exhaustive(f) => {
                let mut obs = Obs::new();
                let r = guarded(|| f(&mut obs, cfg.thorough)).unwrap_or_else(|p| Err(Failure::new(format!("panic: {}", p), json!({}))));
                per_sub.push(json!({"sub": sub.name, "kind": "exhaustive", "evaluations": obs.evaluations,
                    "distinct_nontrivial": obs.nontrivial.len(), "wall_s": ts.elapsed().as_secs_f64()}));
                total.merge(obs);
                if let Err(f) = r {
                    violations.push((sub.name.to_string(), f, None));
                }
            }
        }
    }

    // coverage-guided stage (thorough tier only)
    let mut fuzz_stats = Value::Null;
    if cfg.thorough && only_sub.is_none() {
        if let Some(spec) = &p.fuzz {
            let ts = std::time::Instant::now();
            let (stats, fails) = fuzz_stage(p, spec, cfg.seed);
            total.evaluations += stats["executions"].as_u64().unwrap_or(0);
            per_sub.push(json!({"sub": format!("fuzz:{}", spec.target), "kind": "coverage-guided", "evaluations": stats["executions"], "wall_s": ts.elapsed().as_secs_f64()}));
            fuzz_stats = stats;
            for f in fails {
                violations.push((format!("fuzz-{}", spec.target), f, None));
            }
        }
    }

    // second build (serde_json `preserve_order`): the quick tier again, with documents whose member order is arbitrary
    let mut po_stats = Value::Null;
    if cfg.thorough && only_sub.is_none() && p.insertion_order_stage && !crate::json::value_keeps_insertion_order() {
        let exe = verif_dir().join("harness").join("target-po").join("release").join("jpv");
        if exe.exists() {
            let ts = std::time::Instant::now();
            let out = std::process::Command::new(&exe)
                .args(["run", p.id, "--tier", "quick", "--no-evidence"])
                .env("VERIF_SEED", cfg.seed.to_string())
                .env("VERIF_DIR", verif_dir())
                .output();
            match out {
                Ok(o) => {
                    let text = String::from_utf8_lossy(&o.stdout).to_string();
                    let err = String::from_utf8_lossy(&o.stderr).to_string();
                    let summary = err.lines().rev().find(|l| l.starts_with(p.id)).unwrap_or("").to_string();
                    let evals = summary.split_whitespace().nth(1).and_then(|x| x.parse::<u64>().ok()).unwrap_or(0);
                    total.evaluations += evals;
                    po_stats = json!({"build": "serde_json with preserve_order (members in insertion order)", "exit": o.status.code(), "summary": summary, "wall_s": ts.elapsed().as_secs_f64()});
                    for l in text.lines().filter(|l| l.starts_with("VIOLATION ")) {
                        let path = l.split("replay=").nth(1).unwrap_or("").to_string();
                        let detail = err.lines().skip_while(|x| !x.trim_start().starts_with('[')).take(2).collect::<Vec<_>>().join(" ");
                        violations.push(("insertion-order-build".to_string(), Failure::new(format!("with members in insertion order (preserve_order build): {} (replay of that build: {})", detail, path), json!({"replay_of_second_build": path})), None));
                    }
                    if o.status.code() == Some(2) {
                        eprintln!("note: the preserve_order build could not decide (exit 2): {}", err.lines().rev().take(3).collect::<Vec<_>>().join(" | "));
                    }
                }
                Err(e) => po_stats = json!({"error": format!("cannot run the preserve_order build: {}", e)}),
            }
        } else {
            po_stats = json!({"error": "preserve_order build not present (./check builds it for the thorough tier)"});
        }
    }

    // known findings: one line per listed open finding of this property
    let mut kf = vec![];
    for f in &findings().open {
        if f.property == p.id {
            let hits = total.known.get(&f.id).copied().unwrap_or(0);
            println!("KNOWN-FINDING: property={} {} {} (hits this run: {})", p.id, f.id, f.text, hits);
            kf.push(json!({"id": f.id, "sig": f.sig, "hits": hits, "sample": total.known_samples.get(&f.id)}));
        }
    }

    let harness_bugs: Vec<&(String, Failure, Option<Vec<u32>>)> = violations.iter().filter(|v| v.1.harness).collect();
    if !harness_bugs.is_empty() {
        for (sub, f, choices) in &harness_bugs {
            let path = write_replay(p.id, sub, cfg.seed, choices.as_deref(), f);
            eprintln!("HARNESS-INCONSISTENCY property={} sub={} replay={}", p.id, sub, path);
            eprintln!("  {}", f.msg);
            eprintln!("  case: {}", f.case);
        }
        eprintln!("{}: the harness contradicts itself; no verdict (exit 2)", p.id);
        return 2;
    }
    let mut vlines = vec![];
    for (sub, f, choices) in &violations {
        let path = write_replay(p.id, sub, cfg.seed, choices.as_deref(), f);
        println!("VIOLATION property={} replay={}", p.id, path);
        eprintln!("  [{}] {}", sub, f.msg);
        eprintln!("  case: {}", f.case);
        vlines.push(path);
    }

    let wall = t0.elapsed().as_secs_f64();
    let mut samples = total.samples.clone();
    if samples.is_empty() {
        samples.push(json!("no non-trivial case was generated in this run"));
    }
    let ev = json!({
        "property_id": p.id,
        "tier": if cfg.thorough { "thorough" } else { "quick" },
        "seed": cfg.seed,
        "level": "exploration",
        "coverage": {
            "evaluations": total.evaluations,
            "distinct_nontrivial": total.nontrivial.len(),
            "rule": p.rule,
            "samples": samples,
            "generated_cases": total.cases,
            "labels": total.labels,
            "subchecks": per_sub,
            "boxes": total.boxes,
            "known_finding_hits": kf,
            "not_judged": total.not_judged,
            "selftest_cases": selftests,
            "fuzz": fuzz_stats,
            "insertion_order_build": po_stats,
            "member_order_of_value": if crate::json::value_keeps_insertion_order() { "insertion order (serde_json preserve_order)" } else { "sorted (serde_json default)" },
            "shards": SHARDS,
        },
        "assumptions": p.assumptions,
        "wall_s": wall,
        "violations": violations.len(),
    });
    let evdir = verif_dir().join("evidence");
    let _ = std::fs::create_dir_all(&evdir);
    if only_sub.is_none() && cfg.write_evidence {
        let _ = std::fs::write(
            evdir.join(format!("{}.json", p.id)),
            serde_json::to_string_pretty(&ev).unwrap_or_default(),
        );
    }
    eprintln!(
        "{}: {} evaluations, {} distinct non-trivial, {} violation(s), {:.1}s",
        p.id,
        total.evaluations,
        total.nontrivial.len(),
        violations.len(),
        wall
    );
    if violations.is_empty() {
        0
    } else {
        1
    }
}

/// coverage-guided stage: 16 libFuzzer jobs of the given target, each with its own seed and corpus copy
/// wall-clock limit of one libFuzzer job (16 run in parallel); a job stopped here gives no verdict
pub const FUZZ_JOB_DEADLINE_S: u64 = 900;

/// (JPV_FUZZ_DEADLINE_S overrides it: used to test the stop path)
fn fuzz_job_deadline_s() -> u64 {
    std::env::var("JPV_FUZZ_DEADLINE_S").ok().and_then(|x| x.parse::<u64>().ok()).unwrap_or(FUZZ_JOB_DEADLINE_S)
}

pub fn fuzz_stage(p: &Prop, spec: &FuzzSpec, seed: u64) -> (Value, Vec<Failure>) {
    let fdir = verif_dir().join("harness").join("fuzz");
    let work = fdir.join("work").join(format!("{}-{}", p.id, spec.target));
    let _ = std::fs::remove_dir_all(&work);
    let _ = std::fs::create_dir_all(&work);
    // build once (rebuilds the library from /repo's working tree); no sanitizer: the oracle is in the target
    let build = std::process::Command::new("cargo")
        .args(["+nightly", "fuzz", "build", "-s", "none", spec.target])
        .current_dir(&fdir)
        .env("CARGO_NET_OFFLINE", "true")
        .output();
    match build {
        Ok(o) if o.status.success() => {}
        Ok(o) => {
            let err = String::from_utf8_lossy(&o.stderr).to_string();
            return (json!({"target": spec.target, "error": format!("fuzz build failed: {}", err.lines().rev().take(5).collect::<Vec<_>>().join(" | "))}), vec![]);
        }
        Err(e) => return (json!({"target": spec.target, "error": format!("cargo fuzz not runnable: {}", e)}), vec![]),
    }
    // seed corpus
    let seeds = work.join("seeds");
    if let Some(kind) = spec.seed_corpus {
        let exe = std::env::current_exe().unwrap_or_default();
        let _ = std::process::Command::new(exe).arg("dump-corpus").arg(&seeds).output();
        let _ = kind;
    }
    let jobs: Vec<u64> = (0..SHARDS).collect();
    let results: Vec<(u64, String)> = std::thread::scope(|sc| {
        let hs: Vec<_> = jobs
            .iter()
            .map(|j| {
                let (work, fdir, seeds, spec) = (work.clone(), fdir.clone(), seeds.clone(), spec.clone());
                let j = *j;
                sc.spawn(move || {
                    let corpus = work.join(format!("corpus{}", j));
                    let arts = work.join(format!("artifacts{}", j));
                    let _ = std::fs::create_dir_all(&corpus);
                    let _ = std::fs::create_dir_all(&arts);
                    if let Some(kind) = spec.seed_corpus {
                        if let Ok(rd) = std::fs::read_dir(seeds.join(kind)) {
                            for e in rd.flatten() {
                                let _ = std::fs::copy(e.path(), corpus.join(e.file_name()));
                            }
                        }
                    }
                    let s = (mix(seed, spec.target, j) % 0x7fff_ffff).max(1);
                    use std::os::unix::process::CommandExt;
                    let log_path = work.join(format!("job{}.log", j));
                    let log_file = std::fs::File::create(&log_path);
                    let mut cmd = std::process::Command::new("cargo");
                    cmd.args(["+nightly", "fuzz", "run", "-s", "none", spec.target])
                        .arg(&corpus)
                        .arg("--")
                        .arg(format!("-runs={}", spec.runs))
                        .arg(format!("-max_len={}", spec.max_len))
                        .arg(format!("-seed={}", s))
                        .arg("-len_control=0")
                        .arg("-timeout=120")
                        .arg("-rss_limit_mb=4096")
                        .arg("-print_final_stats=1")
                        .arg(format!("-dict={}", fdir.join("jsonpath.dict").display()))
                        .arg(format!("-artifact_prefix={}/", arts.display()))
                        .current_dir(&fdir)
                        .env("CARGO_NET_OFFLINE", "true")
                        .stdin(std::process::Stdio::null())
                        .stdout(std::process::Stdio::null())
                        // its own process group, so that cargo-fuzz and the target can be stopped together
                        .process_group(0);
                    match log_file {
                        Ok(f) => {
                            cmd.stderr(f);
                        }
                        Err(e) => return (j, format!("cannot create the job log: {}", e)),
                    }
                    // a job that does not finish within the deadline is stopped and gives no verdict: libFuzzer's
                    // own -timeout handler is not async-signal-safe (seen deadlocked in malloc), and a stage
                    // that never ends would turn the whole check into a hang
                    let deadline = std::time::Instant::now() + std::time::Duration::from_secs(fuzz_job_deadline_s());
                    let mut child = match cmd.spawn() {
                        Ok(c) => c,
                        Err(e) => return (j, format!("spawn failed: {}", e)),
                    };
                    let mut killed = false;
                    loop {
                        match child.try_wait() {
                            Ok(Some(_)) => break,
                            Ok(None) => {}
                            Err(_) => break,
                        }
                        if std::time::Instant::now() > deadline {
                            let _ = std::process::Command::new("kill").arg("-9").arg("--").arg(format!("-{}", child.id())).status();
                            let _ = child.wait();
                            killed = true;
                            break;
                        }
                        std::thread::sleep(std::time::Duration::from_millis(500));
                    }
                    let mut log = std::fs::read_to_string(&log_path).unwrap_or_else(|_| String::from_utf8_lossy(&std::fs::read(&log_path).unwrap_or_default()).to_string());
                    if killed {
                        log.push_str("\nJOB-STOPPED-AT-DEADLINE\n");
                    }
                    (j, log)
                })
            })
            .collect();
        hs.into_iter().filter_map(|h| h.join().ok()).collect()
    });
    let mut execs = 0u64;
    let mut cov = 0u64;
    let mut units = 0u64;
    let mut fails = vec![];
    let mut other = vec![];
    for (j, log) in &results {
        for l in log.lines() {
            if let Some(v) = l.strip_prefix("stat::number_of_executed_units:") {
                execs += v.trim().parse::<u64>().unwrap_or(0);
            }
            if let Some(v) = l.strip_prefix("stat::new_units_added:") {
                units += v.trim().parse::<u64>().unwrap_or(0);
            }
            if let Some(i) = l.find(" cov: ") {
                if let Some(n) = l[i + 6..].split_whitespace().next().and_then(|x| x.parse::<u64>().ok()) {
                    cov = cov.max(n);
                }
            }
        }
        // a crash: the panic message carries the property tag and (for evaldiff) the case
        let crashed = log.contains("Test unit written to") || log.contains("panicked at");
        if crashed {
            let msg_line = log.lines().skip_while(|l| !l.contains("panicked at")).nth(1).unwrap_or("").trim().to_string();
            let artifact = log.lines().find_map(|l| l.split("Test unit written to ").nth(1)).unwrap_or("").trim().to_string();
            let bytes = std::fs::read(&artifact).unwrap_or_default();
            let case = if let Some(i) = msg_line.find(" :: ") {
                serde_json::from_str::<Value>(&msg_line[i + 4..]).unwrap_or(json!({"artifact": artifact}))
            } else if spec.target == "nopanic" {
                let (q, d) = match bytes.iter().position(|b| *b == 0xFF) {
                    Some(i) => (bytes[..i].to_vec(), bytes[i + 1..].to_vec()),
                    None => (bytes.clone(), b"[1,[2,{\"a\":[3,null]}],\"x\"]".to_vec()),
                };
                json!({"query": String::from_utf8_lossy(&q), "doc": serde_json::from_slice::<Value>(&d).unwrap_or(Value::Null)})
            } else {
                json!({"query": String::from_utf8_lossy(&bytes)})
            };
            let f = Failure::new(format!("libFuzzer target `{}` (job {}): {}", spec.target, j, if msg_line.is_empty() { "crash (no panic message: abort, timeout or out of memory)" } else { &msg_line }), case);
            if msg_line.starts_with(spec.tag) || (spec.tag == "C08" && !msg_line.starts_with("C0")) {
                fails.push(f);
            } else {
                other.push(f.msg.clone());
            }
        }
    }
    for o in &other {
        eprintln!("note: fuzz stage saw a failure that belongs to another property: {}", o);
    }
    let stopped = results.iter().filter(|(_, log)| log.contains("JOB-STOPPED-AT-DEADLINE")).count();
    if stopped > 0 {
        eprintln!("note: {} of {} libFuzzer jobs of `{}` were stopped at the {} s deadline (no verdict from them)", stopped, SHARDS, spec.target, fuzz_job_deadline_s());
    }
    let _ = std::fs::remove_dir_all(&work);
    (
        json!({"engine": "libFuzzer (cargo-fuzz), coverage-guided, oracle inside the target", "target": spec.target, "jobs": SHARDS, "executions": execs, "new_corpus_units": units, "coverage_edges(max over jobs)": cov,
               "crashes_for_this_property": fails.len(), "crashes_for_other_properties": other.len(),
               "jobs_stopped_at_deadline(no verdict)": stopped, "job_deadline_s": fuzz_job_deadline_s()}),
        fails,
    )
}

/// replay a file written by `write_replay` (or a direct case)
pub fn replay(p: &Prop, path: &str) -> i32 {
    install_quiet_panic_hook();
    let text = match std::fs::read_to_string(path) {
        Ok(t) => t,
        Err(e) => {
            eprintln!("cannot read {}: {}", path, e);
            return 2;
        }
    };
    let v: Value = match crate::json::parse_json_unbounded(&text) {
        Ok(v) => v,
        Err(e) => {
            eprintln!("cannot parse {}: {}", path, e);
            return 2;
        }
    };
    let mut obs = Obs::new();
    let sub = v["sub"].as_str().unwrap_or("");
    let r: Res = if let Some(ch) = v["choices"].as_array() {
        let choices: Vec<u32> = ch.iter().map(|x| x.as_u64().unwrap_or(0) as u32).collect();
        match p.subs.iter().find(|s| s.name == sub) {
            Some(Sub {
                kind: Kind::Random { f, .. },
                ..
            }) => run_case(*f, &choices, &mut obs),
            _ => {
                eprintln!("no random sub-check `{}` in {}", sub, p.id);
                return 2;
            }
        }
    } else if let Some(d) = p.direct {
        let case = if v.get("case").is_some() { v["case"].clone() } else { v.clone() };
        guarded(|| d(&case, &mut obs)).unwrap_or_else(|p| Err(Failure::new(format!("panic: {}", p), case.clone())))
    } else {
        eprintln!("{} has no direct replay", p.id);
        return 2;
    };
    for (k, n) in &obs.known {
        println!("KNOWN-FINDING: property={} {} (replayed case attributed, {} time(s))", p.id, k, n);
    }
    match r {
        Ok(()) => {
            println!("replay {}: property held", path);
            0
        }
        Err(f) => {
            println!("VIOLATION property={} replay={}", p.id, path);
            eprintln!("  {}", f.msg);
            eprintln!("  case: {}", f.case);
            1
        }
    }
}
