//! Re-spelling: semantically equivalent variants of a query (RFC 9535 equivalences of C13)

use crate::ast::*;
use crate::gen::{needs_escape_anyway, spell_str};
use crate::src::Src;

pub struct SpellCfg {
    /// may introduce escape sequences (region of the open findings K3/K4)
    pub escapes: bool,
}

fn re_str(src: &mut Src, s: &StrLit, cfg: &SpellCfg) -> StrLit {
    if cfg.escapes {
        return spell_str(src, &s.val, true);
    }
    if s.has_escape() || needs_escape_anyway(&s.val) {
        return s.clone();
    }
    let can_s = !s.val.contains('\'');
    let can_d = !s.val.contains('"');
    match (can_s, can_d) {
        (true, true) => StrLit::with_quote(&s.val, if src.bool() { Quote::D } else { Quote::S }),
        (true, false) => StrLit::with_quote(&s.val, Quote::S),
        (false, true) => StrLit::with_quote(&s.val, Quote::D),
        _ => s.clone(),
    }
}

pub fn re_num(src: &mut Src, n: &NumLit) -> NumLit {
    let f = n.val;
    if f.fract() != 0.0 || f.abs() >= 1e15 {
        return n.clone();
    }
    let i = f as i64;
    if i == 0 && src.chance(1, 3) {
        // zero has negative spellings too; they denote the same number
        let text = *src.pick(&["-0", "-0.0", "-0e0", "-0.0E+1", "0.0", "0e5"]);
        return NumLit { text: text.to_string(), val: if text.starts_with('-') { -0.0 } else { 0.0 }, int_text: false };
    }
    // the decimal point shifted through the digits, as `{:e}` / `%e` formatting writes a number: 110 = 1.1e2 =
    // 11.0e1 = 0.11e3 = 1100e-1 (every one of them denotes exactly the integer)
    if i != 0 && src.chance(1, 5) {
        let digits = i.unsigned_abs().to_string();
        let sign = if i < 0 { "-" } else { "" };
        let k = src.below(digits.len() + 1);
        let text = if k == 0 {
            format!("{}0.{}{}{}", sign, digits, src.pick(&["e", "E", "e+"]), digits.len())
        } else if k == digits.len() {
            format!("{}{}00{}-2", sign, digits, src.pick(&["e", "E"]))
        } else {
            format!("{}{}.{}{}{}", sign, &digits[..k], &digits[k..], src.pick(&["e", "E", "e+", "E+0"]), digits.len() - k)
        };
        return NumLit { text, val: f, int_text: false };
    }
    let (text, int_text) = match src.below(10) {
        // exponents with a sign and leading zeros (`exp = "e" [ "-" / "+" ] 1*DIGIT`)
        7 => (format!("{}e00", i), false),
        8 if i != 0 => (format!("{}0E-01", i), false),
        9 if i % 10 == 0 && i != 0 => (format!("{}e+01", i / 10), false),
        9 => (format!("{}.0E+000", i), false),
        0 => (i.to_string(), true),
        1 => (format!("{}.0", i), false),
        2 => (format!("{}e0", i), false),
        3 => (format!("{}E+0", i), false),
        4 if i != 0 => (format!("{}0e-1", i), false),
        5 if i % 100 == 0 && i != 0 => (format!("{}e2", i / 100), false),
        5 if i % 10 == 0 && i != 0 => (format!("{}E1", i / 10), false),
        _ => (format!("{}.00", i), false),
    };
    NumLit { text, val: f, int_text }
}

fn re_lit(src: &mut Src, l: &Lit, cfg: &SpellCfg) -> Lit {
    match l {
        Lit::Num(n) => Lit::Num(re_num(src, n)),
        Lit::Str(s) => Lit::Str(re_str(src, s, cfg)),
        x => x.clone(),
    }
}

pub fn re_query(src: &mut Src, q: &Query, cfg: &SpellCfg) -> Query {
    Query { abs: q.abs, segs: q.segs.iter().map(|s| re_seg(src, s, cfg)).collect() }
}

fn re_seg(src: &mut Src, s: &Seg, cfg: &SpellCfg) -> Seg {
    let sels: Vec<Sel> = s
        .sels
        .iter()
        .map(|x| match x {
            Sel::Name(n) => Sel::Name(re_str(src, n, cfg)),
            Sel::Filter(e) => Sel::Filter(re_top(src, e, cfg)),
            Sel::Slice(a, b, c, colon2) => Sel::Slice(*a, *b, *c, if c.is_none() { src.bool() } else { *colon2 }),
            y => y.clone(),
        })
        .collect();
    let mut seg = Seg { desc: s.desc, sels, dot: false };
    if seg.can_dot() {
        seg.dot = src.bool();
    }
    seg
}

/// `?e` / `?(e)` / `?((e))`
fn re_top(src: &mut Src, e: &Expr, cfg: &SpellCfg) -> Expr {
    let mut x = re_expr(src, e, cfg);
    // strip or add outer parentheses
    if let Expr::Paren(false, inner) = &x {
        if src.bool() {
            x = (**inner).clone();
        }
    }
    let n = src.weighted(&[60, 30, 10]);
    for _ in 0..n {
        x = Expr::Paren(false, Box::new(x));
    }
    x
}

fn re_expr(src: &mut Src, e: &Expr, cfg: &SpellCfg) -> Expr {
    let x = match e {
        Expr::Or(xs) => Expr::Or(xs.iter().map(|x| re_expr(src, x, cfg)).collect()),
        Expr::And(xs) => Expr::And(
            xs.iter()
                .map(|x| match re_expr(src, x, cfg) {
                    y @ Expr::Or(_) => Expr::Paren(false, Box::new(y)),
                    y => y,
                })
                .collect(),
        ),
        Expr::Paren(not, inner) => {
            let i2 = re_expr(src, inner, cfg);
            // redundant parentheses around an atom may be dropped
            if !*not && matches!(i2, Expr::Cmp(..) | Expr::Test(..) | Expr::Paren(..)) && src.bool() {
                i2
            } else {
                Expr::Paren(*not, Box::new(i2))
            }
        }
        Expr::Cmp(l, op, r) => Expr::Cmp(Box::new(re_cmpable(src, l, cfg)), *op, Box::new(re_cmpable(src, r, cfg))),
        Expr::Test(not, t) => Expr::Test(
            *not,
            Box::new(match t.as_ref() {
                TestE::Q(q) => TestE::Q(re_query(src, q, cfg)),
                TestE::F(f) => TestE::F(re_func(src, f, cfg)),
            }),
        ),
    };
    if src.chance(1, 6) {
        Expr::Paren(false, Box::new(x))
    } else {
        x
    }
}

fn re_cmpable(src: &mut Src, c: &Cmpable, cfg: &SpellCfg) -> Cmpable {
    match c {
        Cmpable::Lit(l) => Cmpable::Lit(re_lit(src, l, cfg)),
        Cmpable::Sing(s) => Cmpable::Sing(Sing {
            abs: s.abs,
            steps: s
                .steps
                .iter()
                .map(|st| match st {
                    SingStep::Name(n, _) => {
                        let n2 = re_str(src, n, cfg);
                        let dot = is_shorthand(&n2.val) && src.bool();
                        SingStep::Name(n2, dot)
                    }
                    x => x.clone(),
                })
                .collect(),
        }),
        Cmpable::F(f) => Cmpable::F(re_func(src, f, cfg)),
    }
}

fn re_func(src: &mut Src, f: &Func, cfg: &SpellCfg) -> Func {
    Func {
        name: f.name.clone(),
        args: f
            .args
            .iter()
            .map(|a| match a {
                Arg::Lit(l) => Arg::Lit(re_lit(src, l, cfg)),
                Arg::Q(q) => Arg::Q(re_query(src, q, cfg)),
                // a parenthesised argument would change its type (logical expression): keep the shape
                Arg::E(e) => Arg::E(re_expr_keep(src, e, cfg)),
                Arg::F(g) => Arg::F(re_func(src, g, cfg)),
            })
            .collect(),
    }
}

fn re_expr_keep(src: &mut Src, e: &Expr, cfg: &SpellCfg) -> Expr {
    match re_expr(src, e, cfg) {
        // a bare test as argument would be read as a query argument
        Expr::Test(false, t) => Expr::Paren(false, Box::new(Expr::Test(false, t))),
        x => x,
    }
}
