//! Grammar-driven generation of valid RFC 9535 queries (independent of any document) and mutation
//! operators that turn them into near misses.

use crate::ast::*;
use crate::gen::{gen_blanks, spell_str};
use crate::json::MAX_SAFE;
use crate::regexo;
use crate::src::Src;

const NAME_CHARS: &[char] = &[
    'a', 'b', 'z', 'A', 'Z', '_', '0', '9', ' ', '-', '.', '*', '$', '@', '[', ']', '(', ')', ',', ':', '?', '!', '<', '=', '&', '|', '/', '~',
    '\'', '"', '\\', '\n', '\t', '\r', '\u{0}', '\u{8}', '\u{c}', '\u{1f}', '\u{7f}', '\u{80}', '\u{a0}', '\u{e9}', '\u{2028}', '\u{3000}',
    '\u{4e2d}', '\u{d7ff}', '\u{e000}', '\u{ffff}', '\u{10000}', '\u{1d11e}', '\u{10ffff}', '\u{263a}',
    // invisible format characters: direction marks (Bidi_Control), joiners, soft hyphen, BOM inside a name
    '\u{200e}', '\u{200f}', '\u{202a}', '\u{202c}', '\u{202e}', '\u{2066}', '\u{2069}', '\u{61c}', '\u{200d}', '\u{ad}', '\u{feff}', '\u{2060}', 'u', 'n',
    // typographic quotes and quote look-alikes
    '\u{2018}', '\u{2019}', '\u{201c}', '\u{201d}', '\u{b4}', '\u{2032}', '\u{ff07}', '\u{ff02}', '\u{ab}', '\u{bb}', '`',
];

pub fn gen_string(src: &mut Src) -> String {
    // rarely a long string (beyond 255 / 256 / 1024 characters)
    let n = if src.chance(1, 300) { *src.pick(&[255usize, 256, 257, 1025]) } else { src.weighted(&[8, 35, 30, 15, 8, 4]) };
    (0..n)
        .map(|_| {
            if src.chance(2, 3) {
                *src.pick(&NAME_CHARS[..8])
            } else {
                *src.pick(NAME_CHARS)
            }
        })
        .collect()
}

fn gen_shorthand(src: &mut Src) -> String {
    let firsts: Vec<char> = NAME_CHARS.iter().copied().filter(|c| is_name_first(*c)).collect();
    let rest: Vec<char> = NAME_CHARS.iter().copied().filter(|c| is_name_first(*c) || c.is_ascii_digit()).collect();
    let n = src.weighted(&[40, 30, 20, 10]);
    let mut s = String::new();
    s.push(*src.pick(&firsts));
    for _ in 0..n {
        s.push(*src.pick(&rest));
    }
    s
}

pub fn gen_int(src: &mut Src) -> i64 {
    match src.weighted(&[40, 30, 10, 10, 10]) {
        0 => src.range(0, 9),
        1 => src.range(-20, 20),
        2 => *src.pick(&[MAX_SAFE, -MAX_SAFE, MAX_SAFE - 1, 1 << 31, -(1 << 31), 1 << 32, (1 << 53) - 2]),
        3 => src.range(-100000, 100000),
        _ => src.range(-MAX_SAFE, MAX_SAFE),
    }
}

/// number = (int / "-0") [frac] [exp], finite, integers within the I-JSON range
pub fn gen_number(src: &mut Src) -> NumLit {
    let int_part: String = match src.weighted(&[20, 10, 40, 20, 10]) {
        0 => "0".into(),
        1 => "-0".into(),
        2 => src.range(-99, 99).to_string(),
        3 => gen_int(src).to_string(),
        _ => src.range(-MAX_SAFE, MAX_SAFE).to_string(),
    };
    let int_part = if int_part == "0" && src.chance(1, 8) { "-0".to_string() } else { int_part };
    let frac = if src.chance(1, 3) {
        let n = 1 + src.below(4);
        let d: String = (0..n).map(|_| char::from(b'0' + src.below(10) as u8)).collect();
        format!(".{}", d)
    } else {
        String::new()
    };
    let exp = if src.chance(1, 3) {
        let e = if src.bool() { "e" } else { "E" };
        let sign = *src.pick(&["", "+", "-"]);
        let digits = match src.below(16) {
            // beyond the range of f64: still a number of the grammar (it has no integer-range rule)
            15 => src.pick(&["400", "999", "308", "0400"]).to_string(),
            4..=7 => "00".to_string(),
            8..=11 => src.range(1, 20).to_string(),
            12..=14 => format!("0{}", src.range(1, 9)),
            0 => "0".to_string(),
            1 => "00".to_string(),
            2 => src.range(1, 20).to_string(),
            _ => format!("0{}", src.range(1, 9)),
        };
        format!("{}{}{}", e, sign, digits)
    } else {
        String::new()
    };
    let text = format!("{}{}{}", int_part, frac, exp);
    let int_text = frac.is_empty() && exp.is_empty() && int_part != "-0";
    let val: f64 = text.parse().unwrap_or(0.0);
    NumLit { text, val, int_text }
}

pub fn gen_literal(src: &mut Src) -> Lit {
    match src.weighted(&[40, 35, 8, 8, 9]) {
        0 => Lit::Num(gen_number(src)),
        1 => {
            let s = gen_string(src);
            Lit::Str(spell_str(src, &s, true))
        }
        2 => Lit::Bool(true),
        3 => Lit::Bool(false),
        _ => Lit::Null,
    }
}

fn gen_name_sel(src: &mut Src) -> StrLit {
    let s = if src.chance(1, 3) { gen_shorthand(src) } else { gen_string(src) };
    spell_str(src, &s, true)
}

fn gen_opt_int(src: &mut Src) -> Option<i64> {
    if src.chance(2, 5) {
        None
    } else {
        Some(gen_int(src))
    }
}

pub struct Lim {
    pub filter_depth: usize,
    pub fn_depth: usize,
    pub logic_depth: usize,
}

pub fn gen_selector(src: &mut Src, lim: &Lim) -> Sel {
    let wf = if lim.filter_depth > 0 { 25 } else { 0 };
    match src.weighted(&[25, 12, 18, 20, wf]) {
        0 => Sel::Name(gen_name_sel(src)),
        1 => Sel::Wild,
        2 => Sel::Index(gen_int(src)),
        3 => {
            let (a, b, c) = (gen_opt_int(src), gen_opt_int(src), gen_opt_int(src));
            Sel::Slice(a, b, c, c.is_none() && src.bool())
        }
        _ => {
            let l2 = Lim { filter_depth: lim.filter_depth - 1, fn_depth: lim.fn_depth, logic_depth: lim.logic_depth };
            Sel::Filter(gen_logical(src, &l2, lim.logic_depth))
        }
    }
}

pub fn gen_segment(src: &mut Src, lim: &Lim) -> Seg {
    let desc = src.chance(1, 5);
    // rarely a very long union (beyond 8 / 16 / 32 / 64 selectors)
    let n = if src.chance(1, 150) { *src.pick(&[9usize, 17, 33, 65, 129, 257]) } else { src.weighted(&[75, 18, 7]) + 1 };
    let sels: Vec<Sel> = (0..n).map(|_| gen_selector(src, lim)).collect();
    let mut seg = Seg { desc, sels, dot: false };
    if seg.can_dot() && src.chance(2, 3) {
        seg.dot = true;
    }
    seg
}

pub fn gen_segments(src: &mut Src, lim: &Lim, max: usize) -> Vec<Seg> {
    // rarely a very long chain of segments
    let n = if max >= 5 && src.chance(1, 150) { *src.pick(&[9usize, 17, 33, 65, 129, 257]) } else { src.weighted(&[10, 35, 30, 15, 7, 3]).min(max) };
    (0..n).map(|_| gen_segment(src, lim)).collect()
}

pub fn gen_singular(src: &mut Src) -> Sing {
    let n = src.weighted(&[20, 45, 25, 10]);
    let steps = (0..n)
        .map(|_| {
            if src.chance(2, 3) {
                let lit = gen_name_sel(src);
                let dot = is_shorthand(&lit.val) && src.chance(2, 3);
                SingStep::Name(lit, dot)
            } else {
                SingStep::Index(gen_int(src))
            }
        })
        .collect();
    Sing { abs: src.chance(1, 3), steps }
}

fn gen_filter_query(src: &mut Src, lim: &Lim) -> Query {
    Query { abs: src.chance(1, 3), segs: gen_segments(src, lim, 3) }
}

/// a ValueType argument: literal, singular query, or a ValueType function
fn gen_value_arg(src: &mut Src, lim: &Lim) -> Arg {
    let wf = if lim.fn_depth > 0 { 20 } else { 0 };
    match src.weighted(&[35, 45, wf]) {
        0 => Arg::Lit(gen_literal(src)),
        1 => Arg::Q(gen_singular(src).to_query()),
        _ => Arg::F(gen_value_fn(src, &Lim { filter_depth: lim.filter_depth, fn_depth: lim.fn_depth - 1, logic_depth: lim.logic_depth })),
    }
}

pub fn gen_value_fn(src: &mut Src, lim: &Lim) -> Func {
    match src.below(3) {
        0 => Func { name: "length".into(), args: vec![gen_value_arg(src, lim)] },
        1 => Func { name: "count".into(), args: vec![Arg::Q(gen_filter_query(src, lim))] },
        _ => Func { name: "value".into(), args: vec![Arg::Q(gen_filter_query(src, lim))] },
    }
}

pub fn gen_logical_fn(src: &mut Src, lim: &Lim) -> Func {
    let name = if src.bool() { "match" } else { "search" };
    let pat = if src.chance(1, 2) {
        let re = regexo::gen_pattern(src);
        let p = regexo::render(&re);
        Arg::Lit(Lit::Str(spell_str(src, &p, true)))
    } else {
        gen_value_arg(src, lim)
    };
    Func { name: name.into(), args: vec![gen_value_arg(src, lim), pat] }
}

pub fn gen_comparable(src: &mut Src, lim: &Lim) -> Cmpable {
    let wf = if lim.fn_depth > 0 { 18 } else { 0 };
    match src.weighted(&[40, 42, wf]) {
        0 => Cmpable::Lit(gen_literal(src)),
        1 => Cmpable::Sing(gen_singular(src)),
        _ => Cmpable::F(gen_value_fn(src, &Lim { filter_depth: lim.filter_depth, fn_depth: lim.fn_depth - 1, logic_depth: lim.logic_depth })),
    }
}

pub fn gen_logical(src: &mut Src, lim: &Lim, depth: usize) -> Expr {
    let wl = if depth > 0 { 9 } else { 0 };
    let wf = if lim.fn_depth > 0 { 10 } else { 0 };
    match src.weighted(&[32, 28, wl, wl, wl, wl, wf]) {
        0 => Expr::Cmp(Box::new(gen_comparable(src, lim)), *src.pick(&Op::ALL), Box::new(gen_comparable(src, lim))),
        1 => Expr::Test(src.chance(1, 4), Box::new(TestE::Q(gen_filter_query(src, lim)))),
        2 => Expr::Paren(false, Box::new(gen_logical(src, lim, depth - 1))),
        3 => Expr::Paren(true, Box::new(gen_logical(src, lim, depth - 1))),
        4 => {
            let n = if src.chance(1, 100) { *src.pick(&[9usize, 17, 33]) } else { 2 + src.weighted(&[75, 25]) };
            Expr::And(
                (0..n)
                    .map(|_| match gen_logical(src, lim, depth - 1) {
                        e @ (Expr::Or(_) | Expr::And(_)) => Expr::Paren(false, Box::new(e)),
                        e => e,
                    })
                    .collect(),
            )
        }
        5 => {
            let n = if src.chance(1, 100) { *src.pick(&[9usize, 17, 33]) } else { 2 + src.weighted(&[75, 25]) };
            Expr::Or(
                (0..n)
                    .map(|_| match gen_logical(src, lim, depth - 1) {
                        e @ Expr::Or(_) => Expr::Paren(false, Box::new(e)),
                        e => e,
                    })
                    .collect(),
            )
        }
        _ => {
            let f = gen_logical_fn(src, &Lim { filter_depth: lim.filter_depth, fn_depth: lim.fn_depth - 1, logic_depth: lim.logic_depth });
            Expr::Test(src.chance(1, 4), Box::new(TestE::F(f)))
        }
    }
}

/// a valid query, well-typed, integers within range
pub fn gen_valid(src: &mut Src) -> Query {
    let lim = Lim { filter_depth: 2, fn_depth: 2, logic_depth: 2 };
    let mut q = Query { abs: true, segs: gen_segments(src, &lim, 5) };
    // now and then: deep nesting of parentheses / negations / filters (<= 32 levels)
    if src.chance(1, 30) {
        let n = 4 + src.below(29);
        let mut e = gen_logical(src, &Lim { filter_depth: 0, fn_depth: 1, logic_depth: 1 }, 1);
        match src.below(3) {
            0 => {
                for _ in 0..n {
                    e = Expr::Paren(false, Box::new(e));
                }
            }
            1 => {
                for _ in 0..n {
                    e = Expr::Paren(true, Box::new(e));
                }
            }
            _ => {
                for _ in 0..n.min(16) {
                    e = Expr::Test(false, Box::new(TestE::Q(Query { abs: false, segs: vec![Seg { desc: false, sels: vec![Sel::Filter(e)], dot: false }] })));
                }
            }
        }
        q.segs.push(Seg { desc: false, sels: vec![Sel::Filter(e)], dot: false });
    }
    q
}

pub fn render_spelled(src: &mut Src, q: &Query) -> String {
    let n = crate::gen::blank_slots(q);
    let blanks = if src.chance(1, 3) { vec![] } else { gen_blanks(src, n) };
    render(q, &mut Blanks::new(&blanks))
}

// ------------------------------------------------------------------------------------------------
// mutation

#[derive(Clone, Debug, PartialEq)]
pub struct Tok {
    pub text: String,
    pub kind: TokKind,
}
#[derive(Clone, Copy, Debug, PartialEq)]
pub enum TokKind {
    Punct,
    Str,
    Num,
    Ident,
    Blank,
    Other,
}

pub fn tokenize(s: &str) -> Vec<Tok> {
    let cs: Vec<char> = s.chars().collect();
    let mut i = 0;
    let mut out = vec![];
    while i < cs.len() {
        let c = cs[i];
        let st = i;
        let kind;
        if c == '\'' || c == '"' {
            i += 1;
            while i < cs.len() && cs[i] != c {
                if cs[i] == '\\' {
                    i += 1;
                }
                i += 1;
            }
            i = (i + 1).min(cs.len());
            kind = TokKind::Str;
        } else if c.is_ascii_digit() || (c == '-' && cs.get(i + 1).map_or(false, |d| d.is_ascii_digit())) {
            i += 1;
            while i < cs.len() && (cs[i].is_ascii_digit() || matches!(cs[i], '.' | 'e' | 'E') || (matches!(cs[i], '+' | '-') && matches!(cs[i - 1], 'e' | 'E'))) {
                if cs[i] == '.' && !cs.get(i + 1).map_or(false, |d| d.is_ascii_digit()) {
                    break;
                }
                i += 1;
            }
            kind = TokKind::Num;
        } else if is_name_first(c) {
            while i < cs.len() && (is_name_first(cs[i]) || cs[i].is_ascii_digit()) {
                i += 1;
            }
            kind = TokKind::Ident;
        } else if matches!(c, ' ' | '\t' | '\n' | '\r') {
            while i < cs.len() && matches!(cs[i], ' ' | '\t' | '\n' | '\r') {
                i += 1;
            }
            kind = TokKind::Blank;
        } else {
            let two: String = cs[i..(i + 2).min(cs.len())].iter().collect();
            if ["..", "==", "!=", "<=", ">=", "&&", "||"].contains(&two.as_str()) {
                i += 2;
            } else {
                i += 1;
            }
            kind = if "$@.[](),:?!*<>=&|".contains(c) { TokKind::Punct } else { TokKind::Other };
        }
        out.push(Tok { text: cs[st..i].iter().collect(), kind });
    }
    out
}

const DICT: &[&str] = &[
    "$", "@", ".", "..", "[", "]", "(", ")", ",", ":", "?", "!", "*", "==", "!=", "<=", ">=", "<", ">", "&&", "||", "=", "===", "&", "|", "and", "or", "not",
    "true", "false", "null", "True", "NULL", "0", "1", "-1", "-0", "01", "00", "1.", ".5", "1e", "1e+", "+1", "9007199254740992", "-9007199254740992",
    "9223372036854775807", "-9223372036854775808", "18446744073709551616", "1.5", "1e2", "'a'", "\"a\"", "'", "\"", "''", "length", "count", "value", "match",
    "search", "Length", "length(", "count(@.*)", "length(@)", "value(@.a)", "match(@,'a')", "@.a", "$.a", "@.*", "@..a", "@[0,1]", "@[1:2]", " ", "\t", "\n", "\r", "\u{a0}",
    "a", "_", "in", "nin", "size",
];

/// one mutation step on the token list; returns a label
pub fn mutate_tokens(src: &mut Src, toks: &mut Vec<Tok>) -> &'static str {
    if toks.is_empty() {
        toks.push(Tok { text: src.pick(DICT).to_string(), kind: TokKind::Other });
        return "insert-token";
    }
    let i = src.below(toks.len());
    match src.weighted(&[16, 10, 10, 14, 16, 14, 10, 10]) {
        0 => {
            toks.remove(i);
            "delete-token"
        }
        1 => {
            let t = toks[i].clone();
            toks.insert(i, t);
            "duplicate-token"
        }
        2 => {
            if i + 1 < toks.len() {
                toks.swap(i, i + 1);
            }
            "swap-tokens"
        }
        3 => {
            // blank inside a token (between two of its characters) or at its border
            let cs: Vec<char> = toks[i].text.chars().collect();
            let pos = src.below(cs.len() + 1);
            let b = *src.pick(&[' ', '\t', '\n', '\r']);
            let mut t: String = cs[..pos].iter().collect();
            t.push(b);
            t.extend(cs[pos..].iter());
            toks[i].text = t;
            "blank-inside-or-beside-token"
        }
        4 => {
            toks[i] = Tok { text: src.pick(DICT).to_string(), kind: TokKind::Other };
            "replace-token"
        }
        5 => {
            toks.insert(i, Tok { text: src.pick(DICT).to_string(), kind: TokKind::Other });
            "insert-token"
        }
        6 => {
            // damage a string literal or a number from inside
            let t = &mut toks[i];
            let mut cs: Vec<char> = t.text.chars().collect();
            match t.kind {
                TokKind::Str => {
                    let pos = 1 + src.below(cs.len().max(2) - 1);
                    let ins: &str = *src.pick(&["\\x", "\\", "\\u12", "\\uD800", "\\uDC00", "\n", "\u{1}", "\\'", "\\\"", "'", "\"", "\\U0041", "\\ n"]);
                    let pos = pos.min(cs.len());
                    let tail: Vec<char> = cs.split_off(pos);
                    cs.extend(ins.chars());
                    cs.extend(tail);
                }
                TokKind::Num => {
                    let pos = src.below(cs.len() + 1);
                    let ins: &str = *src.pick(&["0", "-", ".", "e", "00", "+", " "]);
                    let tail: Vec<char> = cs.split_off(pos);
                    cs.extend(ins.chars());
                    cs.extend(tail);
                }
                _ => {
                    if let Some(c) = cs.first().copied() {
                        cs[0] = c.to_ascii_uppercase();
                    }
                }
            }
            t.text = cs.into_iter().collect();
            "damage-literal"
        }
        _ => {
            // quote flip / bracket flip
            let t = &mut toks[i];
            t.text = match t.text.as_str() {
                "[" => "(".into(),
                "]" => ")".into(),
                "(" => "[".into(),
                ")" => "]".into(),
                "&&" => "&".into(),
                "||" => "|".into(),
                "==" => "=".into(),
                other => {
                    if other.starts_with('\'') {
                        format!("\"{}", &other[1..])
                    } else if other.starts_with('"') {
                        format!("'{}", &other[1..])
                    } else {
                        format!("{}{}", other, other)
                    }
                }
            };
            "flip-delimiter"
        }
    }
}

pub fn join(toks: &[Tok]) -> String {
    toks.iter().map(|t| t.text.as_str()).collect()
}

const EDIT_CHARS: &[char] = &[
    '$', '@', '.', '[', ']', '(', ')', '*', ',', ':', '?', '!', '<', '>', '=', '&', '|', '\'', '"', '\\', '0', '1', '9', '-', '+', 'e', 'E', 'a', 'u', 'n', '_', ' ', '\t', '\n',
    '\r', '\u{0}', '\u{a0}', '\u{e9}', '\u{1d11e}',
    // look-alikes of ASCII digits, letters and punctuation (full-width forms, other scripts' digits)
    '\u{ff14}', '\u{ff21}', '\u{ff41}', '\u{ff04}', '\u{ff3b}', '\u{ff0e}', '\u{663}', '\u{b2}', '\u{2028}', '\u{85}',
];

pub fn mutate_chars(src: &mut Src, s: &str) -> String {
    let mut cs: Vec<char> = s.chars().collect();
    let n = 1 + src.weighted(&[60, 30, 10]);
    for _ in 0..n {
        let pos = src.below(cs.len() + 1);
        match src.below(3) {
            0 => cs.insert(pos, *src.pick(EDIT_CHARS)),
            1 => {
                if pos < cs.len() {
                    cs.remove(pos);
                }
            }
            _ => {
                if pos < cs.len() {
                    cs[pos] = *src.pick(EDIT_CHARS);
                }
            }
        }
    }
    cs.into_iter().collect()
}

pub fn token_soup(src: &mut Src) -> String {
    let n = src.below(12);
    let mut s = String::new();
    if !src.chance(1, 5) {
        s.push('$');
    }
    for _ in 0..n {
        s.push_str(*src.pick(DICT));
    }
    s
}

pub fn arbitrary_string(src: &mut Src) -> String {
    let n = src.below(16);
    (0..n)
        .map(|_| {
            if src.bool() {
                *src.pick(EDIT_CHARS)
            } else {
                char::from_u32(src.next() % 0x11_0000).unwrap_or('\u{fffd}')
            }
        })
        .collect()
}
