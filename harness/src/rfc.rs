//! RFC 9535 example tables (written from memory, see /verif/notes/rfc9535-facts.md) used as
//! *self-tests of the harness*: the oracle must reproduce the evaluation tables and the recogniser
//! must classify the validity examples.  A disagreement is a harness error (exit 2), never a finding.

use crate::json::*;
use crate::oracle::{self, Quirks};
use crate::recog::{classify, parse_ast, Verdict};
use serde_json::Value;

/// backslash-u escape text, assembled here so that no tool ever sees the sequence literally
pub fn bu(hex: &str) -> String {
    format!("{}u{}", '\\', hex)
}

pub struct Row {
    pub doc: &'static str,
    pub query: String,
    /// expected values, in order
    pub expect: &'static str,
    /// the RFC leaves the order open (member order / descendant order)
    pub unordered: bool,
}

fn row(doc: &'static str, query: &str, expect: &'static str) -> Row {
    Row {
        doc,
        query: query.to_string(),
        expect,
        unordered: false,
    }
}
fn rowu(doc: &'static str, query: &str, expect: &'static str) -> Row {
    Row {
        doc,
        query: query.to_string(),
        expect,
        unordered: true,
    }
}

const D_NAME: &str = r#"{"o":{"j j":{"k.k":3}},"'":{"@":2}}"#;
const D_WILD: &str = r#"{"o":{"j":1,"k":2},"a":[5,3]}"#;
const D_IDX: &str = r#"["a","b"]"#;
const D_SLICE: &str = r#"["a","b","c","d","e","f","g"]"#;
const D_CMP: &str = r#"{"obj":{"x":"y"},"arr":[2,3]}"#;
const D_FILTER: &str = r#"{"a":[3,5,1,2,4,6,{"b":"j"},{"b":"k"},{"b":{}},{"b":"kilo"}],"o":{"p":1,"q":2,"r":3,"s":5,"t":{"u":6}},"e":"f"}"#;
const D_DESC: &str = r#"{"o":{"j":1,"k":2},"a":[5,3,[{"j":4},{"k":6}]]}"#;
const D_NULL: &str = r#"{"a":null,"b":[null],"c":[{}],"null":1}"#;
const D_STORE: &str = r#"{"store":{"book":[{"category":"reference","author":"Nigel Rees","title":"Sayings of the Century","price":8.95},{"category":"fiction","author":"Evelyn Waugh","title":"Sword of Honour","price":12.99},{"category":"fiction","author":"Herman Melville","title":"Moby Dick","isbn":"0-553-21311-3","price":8.99},{"category":"fiction","author":"J. R. R. Tolkien","title":"The Lord of the Rings","isbn":"0-395-19395-8","price":22.99}],"bicycle":{"color":"red","price":399}}}"#;

pub fn eval_rows() -> Vec<Row> {
    let mut v = vec![
        // 1.5 bookstore
        rowu(D_STORE, "$.store.book[*].author", r#"["Nigel Rees","Evelyn Waugh","Herman Melville","J. R. R. Tolkien"]"#),
        rowu(D_STORE, "$..author", r#"["Nigel Rees","Evelyn Waugh","Herman Melville","J. R. R. Tolkien"]"#),
        rowu(D_STORE, "$.store..price", r#"[8.95,12.99,8.99,22.99,399]"#),
        row(D_STORE, "$..book[2].author", r#"["Herman Melville"]"#),
        row(D_STORE, "$..book[2].publisher", r#"[]"#),
        row(D_STORE, "$..book[-1].title", r#"["The Lord of the Rings"]"#),
        row(D_STORE, "$..book[0,1].price", r#"[8.95,12.99]"#),
        row(D_STORE, "$..book[:2].price", r#"[8.95,12.99]"#),
        row(D_STORE, "$..book[?@.isbn].price", r#"[8.99,22.99]"#),
        row(D_STORE, "$..book[?@.price<10].title", r#"["Sayings of the Century","Moby Dick"]"#),
        // 2.3.1.3 name selector
        row(D_NAME, "$.o['j j']", r#"[{"k.k":3}]"#),
        row(D_NAME, "$.o['j j']['k.k']", r#"[3]"#),
        row(D_NAME, r#"$.o["j j"]["k.k"]"#, r#"[3]"#),
        row(D_NAME, r#"$["'"]["@"]"#, r#"[2]"#),
        // 2.3.2.3 wildcard
        rowu(D_WILD, "$[*]", r#"[{"j":1,"k":2},[5,3]]"#),
        rowu(D_WILD, "$.o[*]", r#"[1,2]"#),
        rowu(D_WILD, "$.o[*, *]", r#"[1,2,1,2]"#),
        row(D_WILD, "$.a[*]", r#"[5,3]"#),
        // 2.3.3.3 index
        row(D_IDX, "$[1]", r#"["b"]"#),
        row(D_IDX, "$[-2]", r#"["a"]"#),
        // 2.3.4.3 slice
        row(D_SLICE, "$[1:3]", r#"["b","c"]"#),
        row(D_SLICE, "$[5:]", r#"["f","g"]"#),
        row(D_SLICE, "$[1:5:2]", r#"["b","d"]"#),
        row(D_SLICE, "$[5:1:-2]", r#"["f","d"]"#),
        row(D_SLICE, "$[::-1]", r#"["g","f","e","d","c","b","a"]"#),
        // 2.3.5.3 filter examples
        row(D_FILTER, "$.a[?@.b == 'kilo']", r#"[{"b":"kilo"}]"#),
        row(D_FILTER, "$.a[?(@.b == 'kilo')]", r#"[{"b":"kilo"}]"#),
        row(D_FILTER, "$.a[?@>3.5]", r#"[5,4,6]"#),
        row(D_FILTER, "$.a[?@.b]", r#"[{"b":"j"},{"b":"k"},{"b":{}},{"b":"kilo"}]"#),
        rowu(D_FILTER, "$[?@.*]", r#"[[3,5,1,2,4,6,{"b":"j"},{"b":"k"},{"b":{}},{"b":"kilo"}],{"p":1,"q":2,"r":3,"s":5,"t":{"u":6}}]"#),
        row(D_FILTER, "$[?@[?@.b]]", r#"[[3,5,1,2,4,6,{"b":"j"},{"b":"k"},{"b":{}},{"b":"kilo"}]]"#),
        rowu(D_FILTER, "$.o[?@<3, ?@<3]", r#"[1,2,1,2]"#),
        row(D_FILTER, r#"$.a[?@<2 || @.b == "k"]"#, r#"[1,{"b":"k"}]"#),
        row(D_FILTER, r#"$.a[?match(@.b, "[jk]")]"#, r#"[{"b":"j"},{"b":"k"}]"#),
        row(D_FILTER, r#"$.a[?search(@.b, "[jk]")]"#, r#"[{"b":"j"},{"b":"k"},{"b":"kilo"}]"#),
        rowu(D_FILTER, "$.o[?@>1 && @<4]", r#"[2,3]"#),
        rowu(D_FILTER, "$.o[?@.u || @.x]", r#"[{"u":6}]"#),
        row(D_FILTER, "$.a[?@.b == $.x]", r#"[3,5,1,2,4,6]"#),
        row(D_FILTER, "$.a[?@ == @]", r#"[3,5,1,2,4,6,{"b":"j"},{"b":"k"},{"b":{}},{"b":"kilo"}]"#),
        // 2.5.1.3 child segment
        row(D_SLICE, "$[0, 3]", r#"["a","d"]"#),
        row(D_SLICE, "$[0:2, 5]", r#"["a","b","f"]"#),
        row(D_SLICE, "$[0, 0]", r#"["a","a"]"#),
        // 2.5.2.3 descendant segment
        rowu(D_DESC, "$..j", r#"[1,4]"#),
        rowu(D_DESC, "$..[0]", r#"[5,{"j":4}]"#),
        row(D_DESC, "$..o", r#"[{"j":1,"k":2}]"#),
        rowu(D_DESC, "$.a..[0, 1]", r#"[5,3,{"j":4},{"k":6}]"#),
        rowu(D_DESC, "$..*", r#"[{"j":1,"k":2},[5,3,[{"j":4},{"k":6}]],1,2,5,3,[{"j":4},{"k":6}],{"j":4},{"k":6},4,6]"#),
        rowu(D_DESC, "$..[*]", r#"[{"j":1,"k":2},[5,3,[{"j":4},{"k":6}]],1,2,5,3,[{"j":4},{"k":6}],{"j":4},{"k":6},4,6]"#),
        // 2.6.1 null
        row(D_NULL, "$.a", r#"[null]"#),
        row(D_NULL, "$.a[0]", r#"[]"#),
        row(D_NULL, "$.a.d", r#"[]"#),
        row(D_NULL, "$.b[0]", r#"[null]"#),
        row(D_NULL, "$.b[*]", r#"[null]"#),
        row(D_NULL, "$.b[?@]", r#"[null]"#),
        row(D_NULL, "$.b[?@==null]", r#"[null]"#),
        row(D_NULL, "$.c[?@.d==null]", r#"[]"#),
        row(D_NULL, "$.null", r#"[1]"#),
    ];
    // 2.3.5.3 comparison table: each row `$[?<cmp>]` on [D_CMP-as-single-element] keeps the element iff true
    for (c, t) in CMP_TABLE {
        v.push(Row {
            doc: D_CMP,
            query: format!("$[?{}]", c.replace("$.", "$.").as_str()),
            expect: if *t { "KEEP_ALL" } else { "[]" },
            unordered: true,
        });
    }
    v
}

/// comparison examples of RFC 9535 2.3.5.3 (evaluated with `$` = D_CMP; `@` is unused)
pub const CMP_TABLE: &[(&str, bool)] = &[
    ("$.absent1 == $.absent2", true),
    ("$.absent1 <= $.absent2", true),
    ("$.absent == 'g'", false),
    ("$.absent1 != $.absent2", false),
    ("$.absent != 'g'", true),
    ("1 <= 2", true),
    ("1 > 2", false),
    ("13 == '13'", false),
    ("'a' <= 'b'", true),
    ("'a' > 'b'", false),
    ("$.obj == $.arr", false),
    ("$.obj != $.arr", true),
    ("$.obj == $.obj", true),
    ("$.obj != $.obj", false),
    ("$.arr == $.arr", true),
    ("$.arr != $.arr", false),
    ("$.obj == 17", false),
    ("$.obj != 17", true),
    ("$.obj <= $.arr", false),
    ("$.obj < $.arr", false),
    ("$.obj <= $.obj", true),
    ("$.arr <= $.arr", true),
    ("1 <= $.arr", false),
    ("1 >= $.arr", false),
    ("1 > $.arr", false),
    ("1 < $.arr", false),
    ("true <= true", true),
    ("true > true", false),
];

pub fn valid_queries() -> Vec<String> {
    let mut v: Vec<String> = [
        "$",
        "$.a",
        "$ .a",
        "$.a [0]",
        "$\t..a",
        "$..*",
        "$..[*]",
        "$[ 'a' , \"b\" ]",
        "$[0]",
        "$[-1]",
        "$[1:3]",
        "$[ 1 : 3 : 2 ]",
        "$[::]",
        "$[:]",
        "$[::-1]",
        "$[?@.a]",
        "$[? @.a ]",
        "$[?(@.a)]",
        "$[?!@.a]",
        "$[?! @.a]",
        "$[?!(@.a)]",
        "$[?@.a && @.b || @.c]",
        "$[?@.a==1]",
        "$[?@.a == 1e2]",
        "$[?@.a == 1E+2]",
        "$[?@.a == -0]",
        "$[?@.a == -0.0]",
        "$[?@.a == 0.5e-3]",
        "$[?@['a']==$['b'][0]]",
        "$[?length(@) < 3]",
        "$[?length(@.a) == length('ab')]",
        "$[?count(@.*) == 1]",
        "$[?count(@..a) >= 0]",
        "$[?match(@.timezone, 'Europe/.*')]",
        "$[?search( @.a , \"b\" )]",
        "$[?value(@..color) == \"red\"]",
        "$[?length(value(@..a)) > 1]",
        "$[?match(@.a, $.p)]",
        "$[?@[?@.b]]",
        "$[?$.a[?@.b > 1]]",
        "$[?@ == true]",
        "$[?@ == null]",
        "$[?null == @]",
        "$.\u{e9}",
        "$.\u{a0}",
        "$._a1",
        "$['\\'']",
        "$[\"\\\"\"]",
        "$['\\\\']",
        "$['\\/']",
        "$['\\b\\f\\n\\r\\t']",
        "$[9007199254740991]",
        "$[-9007199254740991]",
        "$[?@.a == 9007199254740991]",
        "$[0, 1, 'a', *, 1:2, ?@.a]",
        "$[?(@.a || @.b) && !(@.c)]",
        "$[?((@.a))]",
    ]
    .iter()
    .map(|s| s.to_string())
    .collect();
    v.push(format!("$['{}']", bu("263a")));
    v.push(format!("$['{}']", bu("263A")));
    v.push(format!("$[\"{}{}\"]", bu("D834"), bu("DD1E")));
    v.push(format!("$[\"{}{}\"]", bu("d834"), bu("dd1e")));
    v.push(format!("$[?@.a == '{}']", bu("000b")));
    v
}

/// (query, expected reason kind or "" for any)
pub fn invalid_queries() -> Vec<(String, &'static str)> {
    let mut v: Vec<(String, &'static str)> = [
        ("", "Syntax"),
        (" $", "BlankNotAllowed"),
        ("$ ", "BlankNotAllowed"),
        ("$.a ", "BlankNotAllowed"),
        ("a", "Syntax"),
        ("$.", "Syntax"),
        ("$..", "Syntax"),
        ("$. a", "BlankNotAllowed"),
        ("$.. a", "BlankNotAllowed"),
        ("$. *", ""),
        ("$.1", "Syntax"),
        ("$.a b", "Syntax"),
        ("$[]", "Syntax"),
        ("$[,]", "Syntax"),
        ("$[0,]", ""),
        ("$[01]", "IntForm"),
        ("$[-0]", "IntForm"),
        ("$[1:-0]", "IntForm"),
        ("$[9007199254740992]", "IntRange"),
        ("$[-9007199254740992]", "IntRange"),
        ("$[1:9007199254740992]", "IntRange"),
        ("$[::9007199254740992]", "IntRange"),
        ("$[?@[9007199254740992]==1]", "IntRange"),
        ("$[1 2]", "Syntax"),
        ("$['a]", "Syntax"),
        ("$['a'", "Syntax"),
        ("$[a]", "Syntax"),
        ("$['\\x']", "BadEscape"),
        ("$['\\\"']", "BadEscape"),
        ("$[\"\\'\"]", "BadEscape"),
        ("$['\\u12']", "BadEscape"),
        ("$['\t']", "RawControl"),
        ("$[?@.a == 'a\nb']", "RawControl"),
        ("$[?]", ""),
        ("$[?1]", "LiteralAsTest"),
        ("$[?'a']", "LiteralAsTest"),
        ("$[?true]", "LiteralAsTest"),
        ("$[?@.a = 1]", "Syntax"),
        ("$[?@.a === 1]", "Syntax"),
        ("$[?@.a == 1 and @.b]", "Syntax"),
        ("$[?@.a & @.b]", "Syntax"),
        ("$[?@.* == 1]", "NonSingularInComparable"),
        ("$[?@..a == 1]", "NonSingularInComparable"),
        ("$[?@[0,1] == 1]", "NonSingularInComparable"),
        ("$[?@[1:2] == 1]", "NonSingularInComparable"),
        ("$[?1 == @[?@.a]]", "NonSingularInComparable"),
        ("$[?(@.a) == 1]", "Syntax"),
        ("$[?!@.a == 1]", "Syntax"),
        ("$[?@.a == 01]", "IntForm"),
        ("$[?@.a == 1.]", "Syntax"),
        ("$[?@.a == .5]", "Syntax"),
        ("$[?@.a == 1e]", "Syntax"),
        ("$[?@.a == +1]", "Syntax"),
        ("$[?@.a == True]", "Syntax"),
        ("$[?@.a == NULL]", "Syntax"),
        ("$[?length(@.*) < 3]", "FnArgType"),
        ("$[?count(1) == 1]", "FnArgType"),
        ("$[?count(@.a == 1) == 1]", "FnArgType"),
        ("$[?match(@.timezone, 'Europe/.*') == true]", "FnResultUse"),
        ("$[?value(@..color)]", "FnResultUse"),
        ("$[?length(@)]", "FnResultUse"),
        ("$[?count(@.*)]", "FnResultUse"),
        ("$[?length() == 1]", "FnArity"),
        ("$[?length(@, @) == 1]", "FnArity"),
        ("$[?match(@)]", "FnArity"),
        ("$[?count(length(@)) == 1]", "FnArgType"),
        ("$[?match(@.*, 'a')]", "FnArgType"),
        ("$[?length (@) == 1]", "BlankNotAllowed"),
        ("$[?Length(@) == 1]", "Syntax"),
        ("$[?@.a == 'a' 'b']", "Syntax"),
        ("$[?@.a == (1)]", "Syntax"),
        ("$[?(@.a]", "Syntax"),
        ("$[?@.a)]", "Syntax"),
        ("$[?@.a ||]", ""),
        ("$[?&& @.a]", ""),
        ("$$", "Syntax"),
        ("$.a..", "Syntax"),
        ("$...a", "Syntax"),
        ("$[0]]", "Syntax"),
        ("$[[0]]", "Syntax"),
        ("$[?@.a == 1]]", "Syntax"),
        ("@.a", "Syntax"),
        ("$['a']['b'", "Syntax"),
        ("$[1:2:3:4]", "Syntax"),
        ("$[1::]x", "Syntax"),
    ]
    .iter()
    .map(|(a, b)| (a.to_string(), *b))
    .collect();
    v.push((format!("$['{}']", bu("D800")), "BadEscape"));
    v.push((format!("$['{}']", bu("DC00")), "BadEscape"));
    v.push((format!("$['{}{}']", bu("DC00"), bu("D800")), "BadEscape"));
    v.push((format!("$['{}{}']", bu("D800"), bu("0041")), "BadEscape"));
    v.push((format!("$['{}']", format!("{}U263A", '\\')), "BadEscape"));
    v
}

pub fn selftest() -> Result<u64, String> {
    let mut n = 0u64;
    for q in valid_queries() {
        n += 1;
        match classify(&q) {
            Verdict::Valid(ast) => {
                // the renderer must reproduce a string the recogniser maps to the same AST
                let again = crate::ast::render_plain(&ast);
                match classify(&again) {
                    Verdict::Valid(a2) if a2 == ast => {}
                    other => return Err(format!("render/parse round trip broke for {:?}: {:?} -> {:?}", q, again, other)),
                }
            }
            other => return Err(format!("recogniser: {:?} must be valid, got {:?}", q, other)),
        }
    }
    for (q, kind) in invalid_queries() {
        n += 1;
        match classify(&q) {
            Verdict::Invalid(r) => {
                if !kind.is_empty() && r.kind != kind {
                    return Err(format!("recogniser: {:?} must be invalid with {}, got {:?}", q, kind, r));
                }
            }
            other => return Err(format!("recogniser: {:?} must be invalid, got {:?}", q, other)),
        }
    }
    for r in eval_rows() {
        n += 1;
        let v: Value = serde_json::from_str(r.doc).map_err(|e| format!("table doc: {}", e))?;
        let doc = J::from_value(&v);
        let ast = parse_ast(&r.query).ok_or(format!("table query does not parse: {}", r.query))?;
        let got: Vec<J> = oracle::eval(&ast, &doc, &Quirks::strict()).iter().map(|n| n.v.clone()).collect();
        let exp: Vec<J> = if r.expect == "KEEP_ALL" {
            match &doc {
                J::Obj(m) => m.iter().map(|x| x.1.clone()).collect(),
                _ => vec![],
            }
        } else {
            match J::from_value(&serde_json::from_str::<Value>(r.expect).map_err(|e| format!("table expect: {}", e))?) {
                J::Arr(a) => a,
                _ => return Err("table expect is not an array".into()),
            }
        };
        let same = if r.unordered {
            let mut rest = exp.clone();
            got.len() == exp.len()
                && got.iter().all(|g| match rest.iter().position(|e| eq_json(e, g)) {
                    Some(i) => {
                        rest.remove(i);
                        true
                    }
                    None => false,
                })
        } else {
            got.len() == exp.len() && got.iter().zip(&exp).all(|(a, b)| eq_json(a, b))
        };
        if !same {
            return Err(format!(
                "oracle disagrees with the RFC table: {} on {} -> {:?}, table says {}",
                r.query,
                r.doc,
                got.iter().map(|j| j.text()).collect::<Vec<_>>(),
                r.expect
            ));
        }
    }
    // normalized paths, 2.7
    for (loc, exp) in [
        (vec![Step::Key("a".into())], "$['a']".to_string()),
        (vec![Step::Idx(1)], "$[1]".to_string()),
        (vec![Step::Key("a".into()), Step::Key("b".into()), Step::Idx(1)], "$['a']['b'][1]".to_string()),
        (vec![Step::Key("\u{b}".into())], format!("$['{}']", bu("000b"))),
        (vec![Step::Key("'\\\n\"/".into())], "$['\\'\\\\\\n\"/']".to_string()),
    ] {
        n += 1;
        let got = normalized_path(&loc);
        if got != exp {
            return Err(format!("normalized path of {:?}: {} expected {}", loc, got, exp));
        }
    }
    Ok(n)
}
