//! Abstract JSONPath query owned by the harness, plus the spelling choices that matter semantically for
//! the known findings (quote style, raw escape text, number text, dot/bracket form).  Blank space is
//! not stored: `render` pulls one blank string per `S` position of the RFC grammar from a `Blanks`.

#[derive(Clone, Debug, PartialEq)]
pub enum Quote {
    S,
    D,
}

#[derive(Clone, Debug, PartialEq)]
pub struct StrLit {
    /// decoded value (what the RFC says the literal denotes)
    pub val: String,
    pub quote: Quote,
    /// text between the quotes exactly as written
    pub raw: String,
}

impl StrLit {
    pub fn text(&self) -> String {
        let q = match self.quote {
            Quote::S => '\'',
            Quote::D => '"',
        };
        format!("{}{}{}", q, self.raw, q)
    }
    pub fn has_escape(&self) -> bool {
        self.raw.contains('\\')
    }
    /// simplest spelling: single quotes unless the value contains one, escapes only where needed
    pub fn plain(val: &str) -> StrLit {
        let quote = if val.contains('\'') && !val.contains('"') {
            Quote::D
        } else {
            Quote::S
        };
        let raw = encode_min(val, &quote);
        StrLit {
            val: val.to_string(),
            quote,
            raw,
        }
    }
    pub fn with_quote(val: &str, quote: Quote) -> StrLit {
        let raw = encode_min(val, &quote);
        StrLit {
            val: val.to_string(),
            quote,
            raw,
        }
    }
}

pub fn is_unescaped(c: char) -> bool {
    let u = c as u32;
    matches!(u, 0x20..=0x21 | 0x23..=0x26 | 0x28..=0x5B | 0x5D..=0xD7FF | 0xE000..=0x10FFFF)
}

pub fn must_escape(c: char, quote: &Quote) -> bool {
    match c {
        '\'' => *quote == Quote::S,
        '"' => *quote == Quote::D,
        c => !is_unescaped(c),
    }
}

pub fn short_escape(c: char) -> Option<char> {
    match c {
        '\u{8}' => Some('b'),
        '\u{c}' => Some('f'),
        '\n' => Some('n'),
        '\r' => Some('r'),
        '\t' => Some('t'),
        '/' => Some('/'),
        '\\' => Some('\\'),
        _ => None,
    }
}

/// `\uXXXX` (or a surrogate pair); `case`: 0 upper, 1 lower, 2 mixed
pub fn u_escape(c: char, case: u8) -> String {
    let mut buf = [0u16; 2];
    let units = c.encode_utf16(&mut buf);
    let mut s = String::new();
    for (i, u) in units.iter().enumerate() {
        let hex = match case {
            0 => format!("{:04X}", u),
            1 => format!("{:04x}", u),
            _ => {
                let up = format!("{:04X}", u);
                up.chars()
                    .enumerate()
                    .map(|(j, ch)| {
                        if (i + j) % 2 == 0 {
                            ch.to_ascii_lowercase()
                        } else {
                            ch
                        }
                    })
                    .collect()
            }
        };
        s.push('\\');
        s.push('u');
        s.push_str(&hex);
    }
    s
}

pub fn encode_min(val: &str, quote: &Quote) -> String {
    let mut s = String::new();
    for c in val.chars() {
        if must_escape(c, quote) {
            if c == '\'' || c == '"' {
                s.push('\\');
                s.push(c);
            } else if let Some(e) = short_escape(c) {
                s.push('\\');
                s.push(e);
            } else {
                s.push_str(&u_escape(c, 1));
            }
        } else {
            s.push(c);
        }
    }
    s
}

pub fn is_name_first(c: char) -> bool {
    let u = c as u32;
    c.is_ascii_alphabetic() || c == '_' || matches!(u, 0x80..=0xD7FF | 0xE000..=0x10FFFF)
}
pub fn is_shorthand(name: &str) -> bool {
    let mut it = name.chars();
    match it.next() {
        Some(c) if is_name_first(c) => it.all(|c| is_name_first(c) || c.is_ascii_digit()),
        _ => false,
    }
}

#[derive(Clone, Debug, PartialEq)]
pub struct NumLit {
    pub text: String,
    pub val: f64,
    /// the text has no fraction and no exponent
    pub int_text: bool,
}

#[derive(Clone, Debug, PartialEq)]
pub enum Lit {
    Num(NumLit),
    Str(StrLit),
    Bool(bool),
    Null,
}

#[derive(Clone, Debug, PartialEq)]
pub enum Sel {
    Name(StrLit),
    Wild,
    Index(i64),
    /// start, end, step, second colon written although the step is absent
    Slice(Option<i64>, Option<i64>, Option<i64>, bool),
    Filter(Expr),
}

#[derive(Clone, Debug, PartialEq)]
pub struct Seg {
    pub desc: bool,
    pub sels: Vec<Sel>,
    /// `.name` / `.*` (resp. `..name` / `..*`) instead of brackets; needs one selector that allows it
    pub dot: bool,
}

impl Seg {
    pub fn can_dot(&self) -> bool {
        self.sels.len() == 1
            && match &self.sels[0] {
                Sel::Wild => true,
                Sel::Name(n) => is_shorthand(&n.val),
                _ => false,
            }
    }
}

#[derive(Clone, Debug, PartialEq)]
pub struct Query {
    /// `$` (true) or `@`
    pub abs: bool,
    pub segs: Vec<Seg>,
}

#[derive(Clone, Copy, Debug, PartialEq, Eq, Hash)]
pub enum Op {
    Eq,
    Ne,
    Lt,
    Le,
    Gt,
    Ge,
}
impl Op {
    pub fn text(&self) -> &'static str {
        match self {
            Op::Eq => "==",
            Op::Ne => "!=",
            Op::Lt => "<",
            Op::Le => "<=",
            Op::Gt => ">",
            Op::Ge => ">=",
        }
    }
    pub const ALL: [Op; 6] = [Op::Eq, Op::Ne, Op::Lt, Op::Le, Op::Gt, Op::Ge];
}

#[derive(Clone, Debug, PartialEq)]
pub enum Expr {
    Or(Vec<Expr>),
    And(Vec<Expr>),
    /// negated?, inner
    Paren(bool, Box<Expr>),
    Cmp(Box<Cmpable>, Op, Box<Cmpable>),
    /// negated?, test
    Test(bool, Box<TestE>),
}

#[derive(Clone, Debug, PartialEq)]
pub enum TestE {
    Q(Query),
    F(Func),
}

#[derive(Clone, Debug, PartialEq)]
pub enum Cmpable {
    Lit(Lit),
    Sing(Sing),
    F(Func),
}

#[derive(Clone, Debug, PartialEq)]
pub struct Sing {
    pub abs: bool,
    pub steps: Vec<SingStep>,
}

#[derive(Clone, Debug, PartialEq)]
pub enum SingStep {
    /// name, written as `.name`
    Name(StrLit, bool),
    Index(i64),
}

#[derive(Clone, Debug, PartialEq)]
pub struct Func {
    pub name: String,
    pub args: Vec<Arg>,
}

#[derive(Clone, Debug, PartialEq)]
pub enum Arg {
    Lit(Lit),
    Q(Query),
    E(Expr),
    F(Func),
}

impl Sing {
    pub fn to_query(&self) -> Query {
        Query {
            abs: self.abs,
            segs: self
                .steps
                .iter()
                .map(|s| match s {
                    SingStep::Name(n, dot) => Seg {
                        desc: false,
                        sels: vec![Sel::Name(n.clone())],
                        dot: *dot,
                    },
                    SingStep::Index(i) => Seg {
                        desc: false,
                        sels: vec![Sel::Index(*i)],
                        dot: false,
                    },
                })
                .collect(),
        }
    }
}

impl Query {
    pub fn is_singular(&self) -> bool {
        self.segs.iter().all(|s| {
            !s.desc && s.sels.len() == 1 && matches!(s.sels[0], Sel::Name(_) | Sel::Index(_))
        })
    }
}

// ------------------------------------------------------------------------------------------------
// rendering

/// supplier of blank strings for the `S` positions, in rendering order
pub struct Blanks<'a> {
    v: &'a [String],
    i: usize,
}
impl<'a> Blanks<'a> {
    pub fn new(v: &'a [String]) -> Self {
        Blanks { v, i: 0 }
    }
    pub fn none() -> Blanks<'static> {
        Blanks { v: &[], i: 0 }
    }
    fn s(&mut self) -> &str {
        let r = self.v.get(self.i).map(|s| s.as_str()).unwrap_or("");
        self.i += 1;
        r
    }
    pub fn used(&self) -> usize {
        self.i
    }
}

pub fn render(q: &Query, b: &mut Blanks) -> String {
    let mut out = String::new();
    r_query(q, b, &mut out);
    out
}
pub fn render_plain(q: &Query) -> String {
    render(q, &mut Blanks::none())
}

fn r_query(q: &Query, b: &mut Blanks, out: &mut String) {
    out.push(if q.abs { '$' } else { '@' });
    for s in &q.segs {
        out.push_str(b.s());
        r_seg(s, b, out);
    }
}

fn r_seg(s: &Seg, b: &mut Blanks, out: &mut String) {
    out.push_str(if s.desc { ".." } else { "" });
    if s.dot && s.can_dot() {
        if !s.desc {
            out.push('.');
        }
        match &s.sels[0] {
            Sel::Wild => out.push('*'),
            Sel::Name(n) => out.push_str(&n.val),
            _ => unreachable!(),
        }
        return;
    }
    out.push('[');
    for (i, sel) in s.sels.iter().enumerate() {
        if i > 0 {
            out.push_str(b.s());
            out.push(',');
        }
        out.push_str(b.s());
        r_sel(sel, b, out);
    }
    out.push_str(b.s());
    out.push(']');
}

fn r_sel(sel: &Sel, b: &mut Blanks, out: &mut String) {
    match sel {
        Sel::Name(n) => out.push_str(&n.text()),
        Sel::Wild => out.push('*'),
        Sel::Index(i) => out.push_str(&i.to_string()),
        Sel::Slice(st, en, step, colon2) => {
            // slice-selector = [start S] ":" S [end S] [":" [S step]]
            if let Some(x) = st {
                out.push_str(&x.to_string());
                out.push_str(b.s());
            }
            out.push(':');
            out.push_str(b.s());
            if let Some(x) = en {
                out.push_str(&x.to_string());
                out.push_str(b.s());
            }
            if step.is_some() || *colon2 {
                out.push(':');
                if let Some(x) = step {
                    out.push_str(b.s());
                    out.push_str(&x.to_string());
                }
            }
        }
        Sel::Filter(e) => {
            out.push('?');
            out.push_str(b.s());
            r_expr(e, b, out);
        }
    }
}

pub fn render_expr(e: &Expr, b: &mut Blanks) -> String {
    let mut out = String::new();
    r_expr(e, b, &mut out);
    out
}

fn r_expr(e: &Expr, b: &mut Blanks, out: &mut String) {
    match e {
        Expr::Or(xs) => {
            for (i, x) in xs.iter().enumerate() {
                if i > 0 {
                    out.push_str(b.s());
                    out.push_str("||");
                    out.push_str(b.s());
                }
                // an Or directly under an Or needs no parentheses semantically, but the grammar has
                // none either way: render nested Or with parentheses to stay unambiguous
                match x {
                    Expr::Or(_) => r_paren(false, x, b, out),
                    _ => r_expr(x, b, out),
                }
            }
        }
        Expr::And(xs) => {
            for (i, x) in xs.iter().enumerate() {
                if i > 0 {
                    out.push_str(b.s());
                    out.push_str("&&");
                    out.push_str(b.s());
                }
                match x {
                    Expr::Or(_) | Expr::And(_) => r_paren(false, x, b, out),
                    _ => r_expr(x, b, out),
                }
            }
        }
        Expr::Paren(not, x) => r_paren(*not, x, b, out),
        Expr::Cmp(l, op, r) => {
            r_cmpable(l, b, out);
            out.push_str(b.s());
            out.push_str(op.text());
            out.push_str(b.s());
            r_cmpable(r, b, out);
        }
        Expr::Test(not, t) => {
            if *not {
                out.push('!');
                out.push_str(b.s());
            }
            match t.as_ref() {
                TestE::Q(q) => r_query(q, b, out),
                TestE::F(f) => r_func(f, b, out),
            }
        }
    }
}

fn r_paren(not: bool, x: &Expr, b: &mut Blanks, out: &mut String) {
    if not {
        out.push('!');
        out.push_str(b.s());
    }
    out.push('(');
    out.push_str(b.s());
    r_expr(x, b, out);
    out.push_str(b.s());
    out.push(')');
}

fn r_lit(l: &Lit, out: &mut String) {
    match l {
        Lit::Num(n) => out.push_str(&n.text),
        Lit::Str(s) => out.push_str(&s.text()),
        Lit::Bool(x) => out.push_str(if *x { "true" } else { "false" }),
        Lit::Null => out.push_str("null"),
    }
}

fn r_cmpable(c: &Cmpable, b: &mut Blanks, out: &mut String) {
    match c {
        Cmpable::Lit(l) => r_lit(l, out),
        Cmpable::Sing(s) => {
            out.push(if s.abs { '$' } else { '@' });
            for st in &s.steps {
                out.push_str(b.s());
                match st {
                    SingStep::Name(n, dot) => {
                        if *dot && is_shorthand(&n.val) {
                            out.push('.');
                            out.push_str(&n.val);
                        } else {
                            out.push('[');
                            out.push_str(&n.text());
                            out.push(']');
                        }
                    }
                    SingStep::Index(i) => {
                        out.push('[');
                        out.push_str(&i.to_string());
                        out.push(']');
                    }
                }
            }
        }
        Cmpable::F(f) => r_func(f, b, out),
    }
}

fn r_func(f: &Func, b: &mut Blanks, out: &mut String) {
    out.push_str(&f.name);
    out.push('(');
    out.push_str(b.s());
    for (i, a) in f.args.iter().enumerate() {
        if i > 0 {
            out.push_str(b.s());
            out.push(',');
            out.push_str(b.s());
        }
        match a {
            Arg::Lit(l) => r_lit(l, out),
            Arg::Q(q) => r_query(q, b, out),
            Arg::E(e) => r_expr(e, b, out),
            Arg::F(f) => r_func(f, b, out),
        }
    }
    out.push_str(b.s());
    out.push(')');
}

pub fn num_lit_int(i: i64) -> NumLit {
    NumLit {
        text: i.to_string(),
        val: i as f64,
        int_text: true,
    }
}

/// shortest text that round-trips the double and is a valid RFC number (no `inf`, `NaN`)
pub fn num_lit_float(f: f64) -> NumLit {
    let mut text = format!("{:?}", f); // e.g. 1.0, 1e300, 1e-17, -0.0
    if text.contains("e") && !text.contains('.') {
        // fine: `1e300` is a valid number
    }
    if text == "-0.0" {
        text = "-0.0".to_string();
    }
    NumLit {
        text,
        val: f,
        int_text: false,
    }
}

// ------------------------------------------------------------------------------------------------
// structure queries used for labels

pub fn for_each_seg<'a>(q: &'a Query, f: &mut dyn FnMut(&'a Seg, usize)) {
    fn expr<'a>(e: &'a Expr, d: usize, f: &mut dyn FnMut(&'a Seg, usize)) {
        match e {
            Expr::Or(xs) | Expr::And(xs) => xs.iter().for_each(|x| expr(x, d, f)),
            Expr::Paren(_, x) => expr(x, d, f),
            Expr::Cmp(l, _, r) => {
                cmpable(l, d, f);
                cmpable(r, d, f);
            }
            Expr::Test(_, t) => match t.as_ref() {
                TestE::Q(q) => query(q, d, f),
                TestE::F(fu) => func(fu, d, f),
            },
        }
    }
    fn cmpable<'a>(c: &'a Cmpable, d: usize, f: &mut dyn FnMut(&'a Seg, usize)) {
        if let Cmpable::F(fu) = c {
            func(fu, d, f)
        }
    }
    fn func<'a>(fu: &'a Func, d: usize, f: &mut dyn FnMut(&'a Seg, usize)) {
        for a in &fu.args {
            match a {
                Arg::Q(q) => query(q, d, f),
                Arg::E(e) => expr(e, d, f),
                Arg::F(g) => func(g, d, f),
                Arg::Lit(_) => {}
            }
        }
    }
    fn query<'a>(q: &'a Query, d: usize, f: &mut dyn FnMut(&'a Seg, usize)) {
        for s in &q.segs {
            f(s, d);
            for sel in &s.sels {
                if let Sel::Filter(e) = sel {
                    expr(e, d + 1, f);
                }
            }
        }
    }
    query(q, 0, f)
}

/// all string literals of a query (names and literals), for escape classification
pub fn for_each_str<'a>(q: &'a Query, f: &mut dyn FnMut(&'a StrLit, bool)) {
    fn lit<'a>(l: &'a Lit, f: &mut dyn FnMut(&'a StrLit, bool)) {
        if let Lit::Str(s) = l {
            f(s, false)
        }
    }
    fn expr<'a>(e: &'a Expr, f: &mut dyn FnMut(&'a StrLit, bool)) {
        match e {
            Expr::Or(xs) | Expr::And(xs) => xs.iter().for_each(|x| expr(x, f)),
            Expr::Paren(_, x) => expr(x, f),
            Expr::Cmp(l, _, r) => {
                cmpable(l, f);
                cmpable(r, f);
            }
            Expr::Test(_, t) => match t.as_ref() {
                TestE::Q(q) => query(q, f),
                TestE::F(fu) => func(fu, f),
            },
        }
    }
    fn cmpable<'a>(c: &'a Cmpable, f: &mut dyn FnMut(&'a StrLit, bool)) {
        match c {
            Cmpable::Lit(l) => lit(l, f),
            Cmpable::Sing(s) => {
                for st in &s.steps {
                    if let SingStep::Name(n, _) = st {
                        f(n, true)
                    }
                }
            }
            Cmpable::F(fu) => func(fu, f),
        }
    }
    fn func<'a>(fu: &'a Func, f: &mut dyn FnMut(&'a StrLit, bool)) {
        for a in &fu.args {
            match a {
                Arg::Q(q) => query(q, f),
                Arg::E(e) => expr(e, f),
                Arg::F(g) => func(g, f),
                Arg::Lit(l) => lit(l, f),
            }
        }
    }
    fn query<'a>(q: &'a Query, f: &mut dyn FnMut(&'a StrLit, bool)) {
        for s in &q.segs {
            for sel in &s.sels {
                match sel {
                    Sel::Filter(e) => expr(e, f),
                    Sel::Name(n) => f(n, true),
                    _ => {}
                }
            }
        }
    }
    query(q, f)
}
