//! Choice source: every generator in the harness draws from a finite sequence of `u32` choices.
//! The sequence itself is generated (and shrunk) by proptest, or decoded from libFuzzer bytes, so that
//! a case is a pure function of the sequence.  All mappings are monotone: the choice 0 selects the
//! first / smallest alternative, so proptest's "shrink towards 0 / delete elements" moves a case
//! towards the simplest member of every alternative.  An exhausted source answers 0.

pub struct Src<'a> {
    data: &'a [u32],
    pos: usize,
}

impl<'a> Src<'a> {
    pub fn new(data: &'a [u32]) -> Self {
        Src { data, pos: 0 }
    }
    pub fn used(&self) -> usize {
        self.pos
    }
    pub fn exhausted(&self) -> bool {
        self.pos >= self.data.len()
    }
    pub fn next(&mut self) -> u32 {
        let v = self.data.get(self.pos).copied().unwrap_or(0);
        self.pos += 1;
        v
    }
    /// uniform in 0..n (n >= 1), monotone in the underlying choice
    pub fn below(&mut self, n: usize) -> usize {
        if n <= 1 {
            // still consume nothing: keeps sequences short
            return 0;
        }
        ((self.next() as u64 * n as u64) >> 32) as usize
    }
    /// inclusive range
    pub fn range(&mut self, lo: i64, hi: i64) -> i64 {
        debug_assert!(lo <= hi);
        let n = (hi - lo + 1) as u128;
        let r = ((self.next() as u128 * n) >> 32) as i64;
        lo + r
    }
    /// true with probability num/den; the choice 0 gives false
    pub fn chance(&mut self, num: u32, den: u32) -> bool {
        let v = self.below(den as usize) as u32;
        v >= den - num
    }
    pub fn pick<'b, T>(&mut self, xs: &'b [T]) -> &'b T {
        &xs[self.below(xs.len())]
    }
    /// index drawn according to weights; index 0 is the shrink target
    pub fn weighted(&mut self, ws: &[u32]) -> usize {
        let total: u32 = ws.iter().sum();
        let mut r = self.below(total as usize) as u32;
        for (i, w) in ws.iter().enumerate() {
            if r < *w {
                return i;
            }
            r -= *w;
        }
        ws.len() - 1
    }
    pub fn bool(&mut self) -> bool {
        self.below(2) == 1
    }
}

/// libFuzzer bytes -> choices (one byte per choice, spread over the u32 range)
pub fn bytes_to_choices(b: &[u8]) -> Vec<u32> {
    b.iter().map(|x| (*x as u32) * 0x0101_0101).collect()
}

pub fn mix(seed: u64, tag: &str, shard: u64) -> u64 {
    // FNV-1a over the tag, then splitmix
    let mut h: u64 = 0xcbf29ce484222325;
    for b in tag.bytes() {
        h ^= b as u64;
        h = h.wrapping_mul(0x100000001b3);
    }
    let mut z = seed
        .wrapping_add(h)
        .wrapping_add(shard.wrapping_mul(0x9E3779B97F4A7C15));
    z = (z ^ (z >> 30)).wrapping_mul(0xBF58476D1CE4E5B9);
    z = (z ^ (z >> 27)).wrapping_mul(0x94D049BB133111EB);
    z ^ (z >> 31)
}
