//! C12 — entry points agree and evaluation is a pure function (repetition, histories, threads)

use crate::ast::*;
use crate::engine::*;
use crate::gen::*;
use crate::json::*;
use crate::libx::{self, LibErr};
use crate::regexo;
use crate::src::Src;
use jsonpath_rust::parser::model::JpQuery;
use jsonpath_rust::parser::parse_json_path;
use jsonpath_rust::query::js_path_process;
use jsonpath_rust::JsonPath;
use serde_json::{json, Value};
use std::io::Write;

pub const ID: &str = "C12";

/// The thread test shares parsed queries between threads.  Whether that is *allowed* is decided at
/// compile time by the separate `sendsync` crate (an unsatisfied bound there is the C12 violation);
/// the harness itself must keep building so that the other checks still give verdicts.
struct Shared<T>(T);
unsafe impl<T> Sync for Shared<T> {}
unsafe impl<T> Send for Shared<T> {}

/// canonical, comparable form of a result: Err text class or the list of (path, value text)
pub fn result_of(v: &Value, q: &str) -> Value {
    match guarded(|| in_flight(q, v, || v.query_with_path(q))) {
        Ok(Ok(r)) => json!(r.into_iter().map(|x| json!([x.clone().path(), x.val().to_string()])).collect::<Vec<_>>()),
        Ok(Err(_)) => json!("Err"),
        Err(p) => json!(format!("panic: {}", p)),
    }
}

fn cfg12() -> GenCfg {
    let mut cfg = GenCfg::plain();
    cfg.special_keys = true;
    cfg.free_escapes = true;
    cfg.regex = true;
    cfg.union_weight = 25;
    cfg
}

/// every backslash of the text starts an escaped backslash or an escaped solidus: the two escapes the library decodes in names, whose
/// selector text is also the normalized spelling (any other escape is the region of the open finding K3)
fn only_plain_backslash_escapes(text: &str) -> bool {
    let cs: Vec<char> = text.chars().collect();
    let mut i = 0;
    while i < cs.len() {
        if cs[i] == '\\' {
            if i + 1 < cs.len() && (cs[i + 1] == '\\' || cs[i + 1] == '/') {
                i += 2;
                continue;
            }
            return false;
        }
        i += 1;
    }
    true
}

/// (a) the three convenience methods and the parse-once route agree position by position
fn random_entry_points(src: &mut Src, obs: &mut Obs) -> Res {
    let cfg = cfg12();
    let doc = gen_doc(src, &cfg).sorted();
    let q = gen_query(src, &doc, &cfg);
    let mut text = render_with_blanks(src, &q, true);
    if src.chance(1, 10) {
        // an invalid query: all entry points must say Err
        text = crate::sentence::mutate_chars(src, &text);
    }
    let v = doc.to_value();
    let before = v.clone();
    let map = node_map(&v);
    obs.eval(5);
    let case = || json!({"query": text, "doc": doc.to_value()});
    let with_path = libx::query_with_path(&v, &map, &text);
    let vals = libx::query_vals(&v, &map, &text);
    let paths = libx::query_paths(&v, &text);
    let parsed = libx::parse(&text);
    for r in [with_path.as_ref().err(), vals.as_ref().err(), paths.as_ref().err(), parsed.as_ref().err()].into_iter().flatten() {
        if let LibErr::Panic(p) = r {
            return Err(Failure::new(format!("panic: {}", p), case()));
        }
    }
    let oks = [with_path.is_ok(), vals.is_ok(), paths.is_ok(), parsed.is_ok()];
    if oks.iter().any(|x| *x != oks[0]) {
        let mut c = case();
        c["ok(query_with_path,query,query_only_path,parse_json_path)"] = json!(oks);
        return Err(Failure::new("the entry points disagree on whether the query is acceptable", c));
    }
    if let (Ok(wp), Ok(vs), Ok(ps), Ok(ast)) = (&with_path, &vals, &paths, &parsed) {
        if wp.len() >= 2 {
            obs.nontrivial(&(text.as_str(), doc.text()), || json!({"query": text, "doc": doc.to_value(), "results": wp.len()}));
        }
        let locs_wp: Vec<Option<Loc>> = wp.iter().map(|n| n.loc.clone()).collect();
        let paths_wp: Vec<String> = wp.iter().map(|n| n.path.clone()).collect();
        if locs_wp.iter().any(|l| l.is_none()) || vs.iter().any(|l| l.is_none()) {
            return Err(Failure::new("a returned reference is not a node of the caller's document", case()));
        }
        if locs_wp != *vs || paths_wp != *ps {
            let mut c = case();
            c["query_with_path"] = json!(wp.iter().map(|n| json!([n.loc.as_ref().map(|l| normalized_path(l)), n.path])).collect::<Vec<_>>());
            c["query"] = json!(vs.iter().map(|l| l.as_ref().map(|l| normalized_path(l))).collect::<Vec<_>>());
            c["query_only_path"] = json!(ps);
            return Err(Failure::new("query, query_only_path and query_with_path do not return the same nodes position by position", c));
        }
        // "the same nodes": the paths listed by query_only_path must spell the very nodes query returned
        // (where no name selector is double-quoted or escaped - a path step made from such a selector is
        // the open finding K2 of C03; steps made by wildcards, descendants and filters are not affected)
        if !text.contains('"') && only_plain_backslash_escapes(&text) {
            let via_paths: Vec<Option<Loc>> = ps.iter().map(|p| crate::recog::path_to_loc(p)).collect();
            if via_paths != *vs {
                let mut c = case();
                c["query_only_path"] = json!(ps);
                c["nodes_of_query(by address)"] = json!(vs.iter().map(|l| l.as_ref().map(|l| normalized_path(l))).collect::<Vec<_>>());
                return Err(Failure::new("query_only_path reports paths that do not lead to the nodes query returns at the same positions", c));
            }
        }
        // parse once, evaluate twice
        for round in 0..2 {
            match libx::process(&v, &map, ast) {
                Ok(r) => {
                    let l2: Vec<Option<Loc>> = r.iter().map(|n| n.loc.clone()).collect();
                    let p2: Vec<String> = r.iter().map(|n| n.path.clone()).collect();
                    if l2 != locs_wp || p2 != paths_wp {
                        let mut c = case();
                        c["round"] = json!(round);
                        c["parsed_once"] = json!(p2);
                        c["parsed_at_call"] = json!(paths_wp);
                        return Err(Failure::new("evaluating a query that was parsed once differs from parsing it at the call", c));
                    }
                }
                Err(e) => return Err(Failure::new(format!("js_path_process on the parsed query fails: {:?}", e), case())),
            }
        }
        // repetition
        let again = libx::query_with_path(&v, &map, &text);
        if again.as_ref().ok() != Some(wp) {
            return Err(Failure::new("repeating the same query on the same document gives a different result", case()));
        }
    }
    if v != before {
        let mut c = case();
        c["doc_after"] = v.clone();
        return Err(Failure::new("the document was changed by a query", c));
    }
    Ok(())
}

// ------------------------------------------------------------------------------------------------
// histories

/// a pool of documents and queries built to collide
fn gen_pool(src: &mut Src) -> (Vec<Value>, Vec<String>, Vec<Vec<bool>>) {
    let cfg = cfg12();
    let nd = 2 + src.below(3);
    let mut docs: Vec<J> = (0..nd).map(|_| gen_doc(src, &cfg).sorted()).collect();
    // equal documents at different addresses, and a document differing in one value
    let d0 = docs[0].clone();
    docs.push(d0.clone());
    let mut d1 = d0.clone();
    let locs = d1.all_locs();
    let l = src.pick(&locs).clone();
    if let Some(t) = d1.get_loc_mut(&l) {
        *t = J::Str("changed".into());
    }
    docs.push(d1);
    // a document with strings for the regex queries
    let re = regexo::gen_pattern(src);
    let pat = regexo::render(&re);
    let subjects: Vec<J> = (0..4).map(|_| J::Str(regexo::gen_subject(&re, src))).collect();
    docs.push(J::Obj(vec![("s".into(), J::Arr(subjects)), ("p".into(), J::Str(pat.clone()))]));
    // two documents of the same shape whose long lists (same length) differ in content: copied into the
    // reused slot they occupy the same allocation
    for variant in 0..2 {
        let list: Vec<J> = (0..40).map(|i| J::Str(format!("w{}", (i * 7 + variant * 3) % 50))).collect();
        let elems: Vec<J> = (0..6).map(|i| J::Str(format!("w{}", i * 5))).collect();
        docs.push(J::Obj(vec![("e".into(), J::Arr(elems)), ("l".into(), J::Arr(list)), ("p".into(), J::Str("w.*".into()))]));
    }
    // a deep, narrow document (many simultaneous levels of `..` when several threads walk it)
    let depth = 40 + src.below(70);
    let mut deep = J::Int(1);
    for i in 0..depth {
        deep = if i % 3 == 2 { J::Arr(vec![deep]) } else { J::Obj(vec![("a".into(), deep), ("b".into(), J::Int(i as i64))]) };
    }
    docs.push(deep);
    let mut queries: Vec<String> = vec![];
    let nq = 2 + src.below(3);
    for _ in 0..nq {
        let d = src.below(docs.len());
        let q = gen_query(src, &docs[d], &cfg);
        queries.push(render_plain(&q));
    }
    // the same pattern under match and search, and a query differing in one literal
    let lit = spell_str(src, &pat, false).text();
    queries.push(format!("$.s[?match(@,{})]", lit));
    queries.push(format!("$.s[?search(@,{})]", lit));
    queries.push("$.s[?match(@,$.p)]".to_string());
    // filters over the long lists (40 elements): few hits, many hits, every element a hit
    queries.push("$.l[?@ == 'w0']".to_string());
    queries.push("$.l[?@ != 'w0']".to_string());
    queries.push("$.l[?match(@, 'w1.*')]".to_string());
    queries.push("$.l[?search(@, $.p)]".to_string());
    queries.push("$.l[?@ > 'w3']".to_string());
    queries.push("$..[?@==1]".to_string());
    queries.push("$..[?@==2]".to_string());
    queries.push("$..*".to_string());
    queries.push("$..a".to_string());
    queries.push("$..[?$.p]".to_string());
    queries.push("$.e[?in(@, $.l)]".to_string());
    queries.push("$.e[?nin(@, $.l)]".to_string());
    queries.push("$[?subset_of($.e, @)]".to_string());
    queries.push("$[?$.a && @]".to_string());
    queries.push("$.*[?!$.b]".to_string());
    queries.push("$..[?$.s[?@ == $.p] || @ == 1]".to_string());
    queries.push("$..[?@.b > 3].b".to_string());
    queries.push("$..[?@.b > 3.5].b".to_string());
    queries.push("$..[?@.b <= 10.0 && @.b != 4.0]".to_string());
    queries.push("$..[?@ == 1.0]".to_string());
    // queries the AST builder rejects after the grammar accepted them
    queries.push("$[?@.a == 9007199254740993]".to_string());
    queries.push("$[?length(@.*) > 1]".to_string());
    // acceptance is part of the result: near misses of pool queries (forbidden blanks) must stay Err whatever was parsed before
    let k = queries.len();
    for i in 0..2 {
        let base = queries[src.below(k)].clone();
        queries.push(if i == 0 { format!(" {}", base) } else { format!("{}\n", base) });
    }
    // pairs whose reference evaluation is not cheap (a query generated for a small document meeting the
    // deep one) are not used: the checks must stay far away from the watchdog on the unchanged tree
    let allowed: Vec<Vec<bool>> = docs
        .iter()
        .map(|d| {
            queries
                .iter()
                .map(|q| match crate::recog::parse_ast(q) {
                    Some(ast) => {
                        crate::oracle::reset();
                        let n = crate::oracle::eval(&ast, d, &crate::oracle::Quirks::strict()).len();
                        !crate::oracle::take_gave_up() && n <= 2_000
                    }
                    None => true,
                })
                .collect()
        })
        .collect();
    (docs.iter().map(|d| d.to_value()).collect(), queries, allowed)
}

/// the reference for "no history": the pair evaluated as the first action of a fresh process
fn fresh_process_result(doc: &Value, q: &str) -> Result<Value, String> {
    fresh_process(json!({"query": q, "doc": doc}))
}

fn fresh_process(msg: Value) -> Result<Value, String> {
    let exe = std::env::current_exe().map_err(|e| e.to_string())?;
    let mut child = std::process::Command::new(exe)
        .arg("once")
        .stdin(std::process::Stdio::piped())
        .stdout(std::process::Stdio::piped())
        .stderr(std::process::Stdio::null())
        .spawn()
        .map_err(|e| e.to_string())?;
    {
        let stdin = child.stdin.as_mut().ok_or("no stdin")?;
        let msg = msg.to_string();
        stdin.write_all(msg.as_bytes()).map_err(|e| e.to_string())?;
    }
    let out = child.wait_with_output().map_err(|e| e.to_string())?;
    serde_json::from_slice(&out.stdout).map_err(|e| format!("worker answer unreadable: {}", e))
}

/// body of `jpv once`
pub fn once_main() -> i32 {
    install_quiet_panic_hook();
    let mut s = String::new();
    let _ = std::io::Read::read_to_string(&mut std::io::stdin(), &mut s);
    let v: Value = crate::json::parse_json_unbounded(&s).unwrap_or(Value::Null);
    let q = v["query"].as_str().unwrap_or("");
    if v["view"].as_str() == Some("V1") {
        println!("{}", paths_on_v1(&v["doc"], q));
    } else {
        println!("{}", result_of(&v["doc"], q));
    }
    0
}

/// the same document held by another `Queryable` type (separate integer and float variants, members in
/// insertion order): the paths the query selects there, or the class of the refusal
pub fn paths_on_v1(doc: &Value, q: &str) -> Value {
    let view = crate::vq::V1::from_j(&J::from_value(doc));
    match guarded(|| view.query_only_path(q)) {
        Ok(Ok(r)) => json!(r),
        Ok(Err(_)) => json!("Err"),
        Err(p) => json!(format!("panic: {}", p)),
    }
}

fn fresh_process_paths_on_v1(doc: &Value, q: &str) -> Result<Value, String> {
    fresh_process(json!({"query": q, "doc": doc, "view": "V1"}))
}

/// runs `f` from a frame that lies at least `bytes` deeper on the current thread's stack (the checks run on
/// threads with 64 MiB of stack)
#[inline(never)]
fn at_stack_depth(bytes: usize, f: &mut dyn FnMut()) {
    let mut pad = [0u8; 16 << 10];
    std::hint::black_box(&mut pad);
    if bytes > pad.len() {
        at_stack_depth(bytes - pad.len(), f);
    } else {
        f();
    }
    std::hint::black_box(&mut pad);
}

fn random_history(src: &mut Src, obs: &mut Obs) -> Res {
    let (docs, queries, allowed) = gen_pool(src);
    let cheap = queries.iter().position(|q| q == "$..a").unwrap_or(0);
    let n = 8 + src.below(33);
    let mut hist: Vec<(usize, usize)> = vec![];
    for _ in 0..n {
        // repeats are likely: small index ranges
        let (d, q) = (src.below(docs.len()), src.below(queries.len()));
        hist.push((d, if allowed[d][q] { q } else { cheap }));
    }
    // distinct pairs -> fresh-process reference
    let mut pairs: Vec<(usize, usize)> = hist.clone();
    pairs.sort();
    pairs.dedup();
    let mut reference: std::collections::HashMap<(usize, usize), Value> = std::collections::HashMap::new();
    for (d, q) in &pairs {
        obs.eval(1);
        match fresh_process_result(&docs[*d], &queries[*q]) {
            Ok(v) => {
                reference.insert((*d, *q), v);
            }
            Err(e) => return Err(Failure::new(format!("harness inconsistency: fresh worker process failed: {}", e), json!({}))),
        }
    }
    // the history, in this process: one parsed query per text (parse once, evaluate many times); the
    // documents are copied into ONE slot that is overwritten in place, so that the same address holds
    // different content over time; every step goes through all entry points in a generated order
    let mut parsed: Vec<Option<JpQuery>> = queries.iter().map(|q| guarded(|| parse_json_path(q)).ok().and_then(|r| r.ok())).collect();
    let repeated = hist.len() > pairs.len();
    let mut slot: Value = Value::Null;
    for (step, (d, q)) in hist.iter().enumerate() {
        obs.eval(4);
        let in_slot = src.bool();
        if in_slot {
            slot.clone_from(&docs[*d]);
        }
        let doc: &Value = if in_slot { &slot } else { &docs[*d] };
        let exp = &reference[&(*d, *q)];
        let exp_paths: Option<Vec<String>> = exp.as_array().map(|a| a.iter().map(|x| x[0].as_str().unwrap_or("").to_string()).collect());
        let exp_vals: Option<Vec<String>> = exp.as_array().map(|a| a.iter().map(|x| x[1].as_str().unwrap_or("").to_string()).collect());
        let order = src.below(6);
        let mut got = Value::Null;
        let mut via_query = Value::Null;
        let mut via_paths = Value::Null;
        let mut via_parsed = Value::Null;
        // the place of the call is part of the history too: one step in five is made from a frame that lies
        // far deeper on the thread's stack than the steps before it (a caller that recurses on its own)
        let frame_depth: usize = if src.chance(1, 5) { *src.pick(&[256usize << 10, 1536 << 10, 4 << 20, 12 << 20]) } else { 0 };
        let mut body = || {
        for k in 0..4 {
            match (k + order) % 4 {
                0 => got = result_of(doc, &queries[*q]),
                1 => {
                    via_query = match guarded(|| doc.query(&queries[*q])) {
                        Ok(Ok(r)) => json!(r.iter().map(|x| x.to_string()).collect::<Vec<_>>()),
                        Ok(Err(_)) => json!("Err"),
                        Err(p) => json!(format!("panic: {}", p)),
                    }
                }
                2 => {
                    via_paths = match guarded(|| doc.query_only_path(&queries[*q])) {
                        Ok(Ok(r)) => json!(r),
                        Ok(Err(_)) => json!("Err"),
                        Err(p) => json!(format!("panic: {}", p)),
                    }
                }
                _ => {
                    // a parsed query is a value: a clone of it (taken now, after whatever it has been
                    // through) must behave like the original, and may replace it from here on
                    let use_clone = src.chance(1, 3);
                    let cloned: Option<JpQuery> = if use_clone { parsed[*q].clone() } else { None };
                    if use_clone && src.bool() {
                        if let Some(c) = &cloned {
                            parsed[*q] = Some(c.clone());
                        }
                    }
                    via_parsed = match cloned.as_ref().or(parsed[*q].as_ref()) {
                        Some(ast) => match guarded(|| js_path_process(ast, doc)) {
                            Ok(Ok(r)) => json!(r.into_iter().map(|x| json!([x.clone().path(), x.val().to_string()])).collect::<Vec<_>>()),
                            Ok(Err(_)) => json!("Err"),
                            Err(p) => json!(format!("panic: {}", p)),
                        },
                        None => json!("Err"),
                    }
                }
            }
        }
        };
        if frame_depth > 0 {
            at_stack_depth(frame_depth, &mut body);
        } else {
            body();
        }
        // the same pair on another `Queryable` type, after everything this process has evaluated on
        // `serde_json::Value` (and on that type): it must answer as it does as the first action of a fresh process
        if src.chance(1, 8) {
            obs.eval(2);
            let here = paths_on_v1(doc, &queries[*q]);
            match fresh_process_paths_on_v1(doc, &queries[*q]) {
                Ok(fresh) => {
                    if here != fresh {
                        return Err(Failure::new(
                            "the result of an evaluation over a second Queryable type depends on the history of earlier evaluations (it differs from the same pair evaluated first in a fresh process)",
                            json!({"step": step, "query": queries[*q], "doc": doc, "paths_here": here, "paths_in_a_fresh_process": fresh, "type": "V1: integer and float variants apart, members in insertion order"}),
                        ));
                    }
                }
                Err(e) => return Err(Failure::new(format!("harness inconsistency: fresh worker process failed: {}", e), json!({}))),
            }
        }
        let ok_query = match &exp_vals {
            Some(v) => via_query == json!(v),
            None => via_query == json!("Err"),
        };
        let ok_paths = match &exp_paths {
            Some(v) => via_paths == json!(v),
            None => via_paths == json!("Err"),
        };
        if got != *exp || via_parsed != *exp || !ok_query || !ok_paths {
            return Err(Failure::new(
                "the result of an evaluation depends on the history of earlier evaluations (it differs from the same pair evaluated first in a fresh process)",
                json!({"step": step, "query": queries[*q], "doc": docs[*d], "query_with_path": got, "query": via_query, "query_only_path": via_paths, "js_path_process(parsed once)": via_parsed, "fresh_process": exp,
                       "document_in_reused_slot": in_slot, "bytes_of_stack_between_this_call_and_the_earlier_ones": frame_depth,
                       "history": hist.iter().take(step + 1).map(|(d, q)| json!([d, queries[*q]])).collect::<Vec<_>>(), "docs": docs}),
            ));
        }
    }
    obs.label("history");
    if repeated {
        obs.nontrivial(&(format!("{:?}", hist), queries.join("|")), || json!({"history(doc index, query)": hist.iter().map(|(d, q)| json!([d, queries[*q]])).collect::<Vec<_>>(), "docs": docs.len()}));
    }
    Ok(())
}

// ------------------------------------------------------------------------------------------------
// schedules

fn random_threads(src: &mut Src, obs: &mut Obs) -> Res {
    let (docs, queries, allowed) = gen_pool(src);
    let cheap = queries.iter().position(|q| q == "$..a").unwrap_or(0);
    let deep_index = docs.len() - 1;
    let nthreads = *src.pick(&[2usize, 3, 4, 8, 16]);
    let rounds = 20 + src.below(40);
    // sequential reference
    let seq: Vec<Vec<Value>> = docs
        .iter()
        .enumerate()
        .map(|(di, d)| queries.iter().enumerate().map(|(qi, q)| if allowed[di][qi] { result_of(d, q) } else { Value::Null }).collect())
        .collect();
    obs.eval((docs.len() * queries.len()) as u64);
    let parsed: Shared<Vec<Option<JpQuery>>> = Shared(queries.iter().map(|q| guarded(|| parse_json_path(q)).ok().and_then(|r| r.ok())).collect());
    // per-thread plan drawn from the choice sequence: (doc, query, yield?) triples
    let plans: Vec<Vec<(usize, usize, bool)>> = (0..nthreads)
        .map(|t| {
            (0..rounds)
                .map(|_| {
                    // half of the threads hammer one shared pair, the others run colliding queries
                    if t % 2 == 0 {
                        // the deep document under `$..a` / `$..*` (index of "$..a" and "$..*" in the pool)
                        let qi = queries.iter().position(|q| q == if (t / 2) % 2 == 0 { "$..a" } else { "$..*" }).unwrap_or(0);
                        (deep_index, qi, src.chance(1, 4))
                    } else {
                        let (d, q) = (src.below(docs.len()), src.below(queries.len()));
                        (d, if allowed[d][q] { q } else { cheap }, src.chance(1, 4))
                    }
                })
                .collect()
        })
        .collect();
    // a flat array wider than anything this process has seen so far: the threads are the first to
    // touch its indices, all at once; the expected paths are known independently ($[0] .. $[n-1])
    static WIDTH: std::sync::atomic::AtomicUsize = std::sync::atomic::AtomicUsize::new(40);
    let width = WIDTH.fetch_add(24, std::sync::atomic::Ordering::Relaxed).min(6000);
    let wide = Value::Array((0..width).map(|i| json!(i)).collect());
    let wide_query = *src.pick(&["$[*]", "$[::1]", "$[?@ >= 0]", "$..[*]"]);
    let expected_wide: Vec<String> = (0..width).map(|i| format!("$[{}]", i)).collect();
    let barrier = std::sync::Barrier::new(nthreads);
    let bad: std::sync::Mutex<Option<Value>> = std::sync::Mutex::new(None);
    std::thread::scope(|sc| {
        for plan in &plans {
            let (docs, queries, parsed, seq, barrier, bad) = (&docs, &queries, &parsed, &seq, &barrier, &bad);
            let (wide, expected_wide) = (&wide, &expected_wide);
            sc.spawn(move || {
                barrier.wait();
                match guarded(|| wide.query_only_path(wide_query)) {
                    Ok(Ok(p)) if p == *expected_wide => {}
                    other => {
                        let mut b = bad.lock().unwrap();
                        if b.is_none() {
                            let got = match other {
                                Ok(Ok(p)) => json!(p.iter().zip(expected_wide.iter()).enumerate().find(|(_, (a, b))| a != b).map(|(i, (a, b))| json!({"position": i, "reported": a, "expected": b}))),
                                Ok(Err(e)) => json!(e.to_string()),
                                Err(p) => json!(p),
                            };
                            *b = Some(json!({"query": wide_query, "doc": format!("[0, 1, ... {}]", expected_wide.len() - 1), "first_difference": got,
                                             "note": "evaluated by all threads at once as the first use of these indices in the process"}));
                        }
                        return;
                    }
                }
                for (d, q, y) in plan {
                    if *y {
                        std::thread::yield_now();
                    }
                    let parsed: &Shared<Vec<Option<JpQuery>>> = parsed;
                    let got = match &parsed.0[*q] {
                        Some(ast) => match guarded(|| js_path_process(ast, &docs[*d])) {
                            Ok(Ok(r)) => json!(r.into_iter().map(|x| json!([x.clone().path(), x.val().to_string()])).collect::<Vec<_>>()),
                            Ok(Err(_)) => json!("Err"),
                            Err(p) => json!(format!("panic: {}", p)),
                        },
                        None => result_of(&docs[*d], &queries[*q]),
                    };
                    if got != seq[*d][*q] {
                        let mut b = bad.lock().unwrap();
                        if b.is_none() {
                            *b = Some(json!({"query": queries[*q], "doc": docs[*d], "concurrent": got, "sequential": seq[*d][*q]}));
                        }
                        return;
                    }
                }
            });
        }
    });
    obs.eval((nthreads * rounds) as u64);
    obs.label(&format!("threads={}", nthreads));
    if nthreads >= 4 {
        obs.nontrivial(&(nthreads, rounds, queries.join("|")), || json!({"threads": nthreads, "rounds_per_thread": rounds, "queries": queries}));
    }
    if let Some(b) = bad.into_inner().unwrap() {
        return Err(Failure::new("a result computed while other threads evaluate queries differs from the sequential result", b));
    }
    Ok(())
}

fn direct(case: &Value, obs: &mut Obs) -> Res {
    let q = case["query"].as_str().unwrap_or("");
    let doc = &case["doc"];
    obs.eval(2);
    let here = result_of(doc, q);
    let fresh = fresh_process_result(doc, q).map_err(|e| Failure::new(format!("harness inconsistency: {}", e), case.clone()))?;
    if here != fresh {
        return Err(Failure::new("result differs from a fresh process", case.clone()));
    }
    Ok(())
}

pub fn prop() -> Prop {
    Prop {
        id: ID,
        rule: "(a) random (document, query) pairs incl. hostile names, escapes, regex and 10% invalid queries: query, query_only_path, query_with_path and js_path_process(parse(q)) compared position by position (addresses and paths), repeated, document compared before/after; \
               (b) histories of 8-40 evaluations over a pool of <= 8 documents (equal documents at different addresses, documents differing in one value) and <= 11 queries built to collide (same pattern under match and search, queries differing in one literal): every step must equal the same pair evaluated as the first action of a fresh process; \
               (c) 2-16 threads sharing parsed queries and documents behind a barrier, with generated yields, against the sequential results; (d) compile-time Send + Sync + Clone of the parsed query and Send + Sync of the error type (separate crate). \
               Non-trivial: (a) >= 2 results, (b) a pair repeated within the history, (c) >= 4 threads. Distinct by case content.",
        assumptions: vec![
            "interleavings are sampled by stress, not enumerated: the library has no synchronisation points a schedule-controlling runtime could take over; a data race that needs a rare interleaving can be missed, a cache with a wrong key or shared scratch state cannot",
            "the reference for `no history` is a fresh process per (query, document) pair",
        ],
        subs: vec![
            Sub { name: "random-entry-points", kind: Kind::Random { f: random_entry_points, quick: 150_000, thorough: 3_000_000, len: 500 } },
            Sub { name: "random-history", kind: Kind::Random { f: random_history, quick: 400, thorough: 8_000, len: 1200 } },
            Sub { name: "random-threads", kind: Kind::Random { f: random_threads, quick: 480, thorough: 9_600, len: 2400 } },
        ],
        direct: Some(direct),
        selftest: None,
        fuzz: None,
        insertion_order_stage: false,
    }
}
