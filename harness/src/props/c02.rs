//! C02 — results are in RFC 9535 document order, duplicates preserved (exact sequence of locations)

use crate::ast::*;
use crate::engine::*;
use crate::gen::*;
use crate::json::*;
use crate::libx::{self, LibErr};
use crate::oracle::{self, Quirks};
use crate::props::c01::{case_json, labels, parse_direct};
use crate::src::Src;
use serde_json::{json, Value};

pub const ID: &str = "C02";

fn locs(q: &Query, doc: &J, k: &Quirks) -> Vec<Loc> {
    oracle::eval(q, doc, k).iter().map(|n| n.loc()).collect()
}

pub fn check(q: &Query, text: &str, doc: &J, obs: &mut Obs) -> Res {
    let v = doc.to_value();
    let map = node_map(&v);
    let case = || case_json(text, doc);
    let strict = locs(q, doc, &Quirks::strict());
    obs.eval(1);
    labels(q, obs);
    let sizes = oracle::input_sizes(q, doc);
    let multi_input = sizes.iter().any(|n| *n > 1);
    let multi_sel = q.segs.iter().any(|s| s.sels.len() > 1);
    let neg_step = q.segs.iter().any(|s| s.sels.iter().any(|x| matches!(x, Sel::Slice(_, _, Some(st), _) if *st < 0)));
    if multi_input {
        obs.label("multi-input-segment");
    }
    if neg_step {
        obs.label("negative-step");
    }
    if multi_input && multi_sel {
        obs.label("union-over-multi-input");
    }
    let has_dup = {
        let mut s = strict.clone();
        s.sort();
        s.windows(2).any(|w| w[0] == w[1])
    };
    if has_dup {
        obs.label("duplicates-in-result");
    }
    if strict.len() >= 2 && (multi_input || multi_sel) {
        obs.nontrivial(&(text, doc.text()), || {
            json!({"query": text, "doc": doc.to_value(), "order": strict.iter().map(|l| normalized_path(l)).collect::<Vec<_>>()})
        });
    }
    let runs = vec![
        ("query_with_path", libx::query_with_path(&v, &map, text)),
        ("js_path_process(programmatic AST)", libx::process(&v, &map, &libx::to_lib(q))),
    ];
    obs.eval(1);
    for (what, r) in runs {
        let nodes = match r {
            Ok(n) => n,
            Err(LibErr::Err(e)) => return Err(Failure::new(format!("{}: valid query rejected: {}", what, e), case())),
            Err(LibErr::Panic(p)) => return Err(Failure::new(format!("{}: panic: {}", what, p), case())),
        };
        let mut got = vec![];
        for n in &nodes {
            match &n.loc {
                Some(l) => got.push(l.clone()),
                None => return Err(Failure::new(format!("{}: returned value is not a node of the document", what), case())),
            }
        }
        // the third entry point lists paths only: they must spell the nodes just returned, in that order
        // (only where every name selector is written the way a normalized path writes it: a path step
        // made from a double-quoted selector is the open finding K2 of C03)
        if what == "query_with_path" && !text.contains('"') && !text.contains('\\') {
            obs.eval(1);
            match libx::query_paths(&v, text) {
                Ok(paths) => {
                    let via_paths: Vec<Option<Loc>> = paths.iter().map(|p| crate::recog::path_to_loc(p)).collect();
                    if via_paths.len() != got.len() || via_paths.iter().zip(&got).any(|(a, b)| a.as_ref() != Some(b)) {
                        let mut c = case();
                        c["query_only_path"] = json!(paths);
                        c["nodes_of_query_with_path"] = json!(got.iter().map(|l| normalized_path(l)).collect::<Vec<_>>());
                        return Err(Failure::new("query_only_path does not list the nodes in the order (and number) in which query_with_path returns them", c));
                    }
                }
                Err(LibErr::Err(e)) => return Err(Failure::new(format!("query_only_path: valid query rejected: {}", e), case())),
                Err(LibErr::Panic(p)) => return Err(Failure::new(format!("query_only_path: panic: {}", p), case())),
            }
        }
        if got == strict {
            continue;
        }
        // an order RFC 9535 also permits for descendant segments
        let mut alt = Quirks::strict();
        alt.desc_breadth_first = true;
        if got == locs(q, doc, &alt) {
            obs.label("alt_valid_order(breadth-first descendants)");
            continue;
        }
        match attribute(ID, &got, |k| locs(q, doc, k)) {
            Attribution::Strict => {}
            Attribution::Known(bits) => {
                for id in finding_ids_for_bits(ID, bits) {
                    obs.known(&id, || case());
                }
            }
            Attribution::Unexplained => {
                let mut c = case();
                c["expected_order"] = json!(strict.iter().map(|l| normalized_path(l)).collect::<Vec<_>>());
                c["library_order"] = json!(got.iter().map(|l| normalized_path(l)).collect::<Vec<_>>());
                return Err(Failure::new(format!("{}: result order (or multiplicity) differs from RFC 9535 document order", what), c));
            }
        }
    }
    Ok(())
}

fn cfg_order() -> GenCfg {
    let mut cfg = GenCfg::plain();
    cfg.union_weight = 40;
    cfg.max_width = 5;
    cfg
}

fn random_order(src: &mut Src, obs: &mut Obs) -> Res {
    let cfg = cfg_order();
    let doc = gen_doc(src, &cfg).sorted();
    let q = gen_query(src, &doc, &cfg);
    let blanks = src_blank(src);
    let text = render_with_blanks(src, &q, blanks);
    check(&q, &text, &doc, obs)
}

/// documents whose member names need escapes (apostrophes, backslashes, control characters) among plain
/// ones, under wildcards, descendants, slices and name selectors of the plain names: how a name must be
/// spelled in a path has no bearing on where its member stands in the document.  (Name selectors that
/// would need an escape are replaced by wildcards, and there are no filters: the region of finding K3.)
fn random_hostile_names(src: &mut Src, obs: &mut Obs) -> Res {
    let mut cfg = cfg_order();
    cfg.special_keys = true;
    cfg.filter_depth = 0;
    let doc = gen_doc(src, &cfg).sorted();
    let mut q = gen_query(src, &doc, &cfg);
    for sg in q.segs.iter_mut() {
        for sel in sg.sels.iter_mut() {
            if let Sel::Name(n) = sel {
                if n.has_escape() || encode_min(&n.val, &Quote::S) != n.val || encode_min(&n.val, &Quote::D) != n.val {
                    *sel = Sel::Wild;
                }
            }
        }
        if sg.sels.iter().all(|x| matches!(x, Sel::Wild)) {
            sg.sels.truncate(1);
        }
    }
    obs.label("hostile-names");
    let text = render_plain(&q);
    check(&q, &text, &doc, obs)
}

/// "k is one of (...)" as a query builder writes it: a chain of 2-9 alternatives over one operand, listed in
/// any order, some of them equal (`3` and `3.0`): the kept elements come in index order, each once
fn random_or_chains(src: &mut Src, obs: &mut Obs) -> Res {
    let n = 3 + src.below(10);
    let scalars = [J::Int(1), J::Int(2), J::Int(3), J::Float(3.0), J::Int(4), J::Int(5), J::Int(6), J::Str("a".into()), J::Str("b".into()), J::Null, J::Bool(true)];
    let records = src.bool();
    let rows: Vec<J> = (0..n)
        .map(|_| {
            let v = src.pick(&scalars).clone();
            if records {
                if src.chance(1, 8) {
                    J::Obj(vec![])
                } else {
                    J::Obj(vec![("id".to_string(), v)])
                }
            } else {
                v
            }
        })
        .collect();
    let as_object = src.chance(1, 4);
    let doc = if as_object { J::Obj(rows.into_iter().enumerate().map(|(i, r)| (format!("k{:02}", i), r)).collect()) } else { J::Arr(rows) };
    let operand = if records { *src.pick(&["@.id", "@['id']"]) } else { "@" };
    let lits = ["1", "2", "3", "3.0", "4", "5", "6", "'a'", "'b'", "null", "true", "7"];
    let k = 2 + src.below(8);
    let alts: Vec<String> = (0..k)
        .map(|_| {
            let l = src.pick(&lits);
            match src.below(12) {
                0 => format!("{} == {}", l, operand),
                1 => format!("{} != {}", operand, l),
                _ => format!("{} == {}", operand, l),
            }
        })
        .collect();
    let text = format!("$[?{}]", alts.join(" || "));
    let q = match crate::recog::parse_ast(&text) {
        Some(q) => q,
        None => return Err(Failure::new("harness inconsistency: the or-chain family produced a query outside the recogniser's language", json!({"query": text}))),
    };
    obs.label("or-chain");
    if crate::oracle::eval(&q, &doc, &crate::oracle::Quirks::strict()).len() >= 2 {
        obs.nontrivial(&(text.as_str(), doc.text()), || json!({"query": text, "doc": doc.to_value()}));
    }
    check(&q, &text, &doc, obs)
}

fn src_blank(src: &mut Src) -> bool {
    src.chance(1, 3)
}

/// unions only in the last segment or over a single input node: the region the open finding K1 does
/// not touch, searched with the strict oracle only
fn random_no_k1(src: &mut Src, obs: &mut Obs) -> Res {
    let cfg = cfg_order();
    let doc = gen_doc(src, &cfg).sorted();
    let mut q = gen_query(src, &doc, &cfg);
    let sizes = oracle::input_sizes(&q, &doc);
    for (i, s) in q.segs.iter_mut().enumerate() {
        if s.sels.len() > 1 && (sizes[i] > 1 || s.desc) {
            s.sels.truncate(1);
        }
    }
    let text = render_plain(&q);
    let v = doc.to_value();
    let map = node_map(&v);
    let strict = locs(&q, &doc, &Quirks::strict());
    obs.eval(1);
    obs.label("k1-free-by-construction");
    if strict.len() >= 2 {
        obs.nontrivial(&(text.as_str(), doc.text()), || json!({"query": text, "doc": doc.to_value()}));
    }
    match libx::query_with_path(&v, &map, &text) {
        Ok(nodes) => {
            let got: Vec<Option<Loc>> = nodes.iter().map(|n| n.loc.clone()).collect();
            let exp: Vec<Option<Loc>> = strict.iter().cloned().map(Some).collect();
            if got != exp {
                let mut alt = Quirks::strict();
                alt.desc_breadth_first = true;
                let e2: Vec<Option<Loc>> = locs(&q, &doc, &alt).into_iter().map(Some).collect();
                if got == e2 {
                    obs.label("alt_valid_order(breadth-first descendants)");
                    return Ok(());
                }
                let mut c = case_json(&text, &doc);
                c["expected_order"] = json!(strict.iter().map(|l| normalized_path(l)).collect::<Vec<_>>());
                c["library_order"] = json!(got.iter().map(|l| l.as_ref().map(|l| normalized_path(l))).collect::<Vec<_>>());
                return Err(Failure::new("result order differs from RFC 9535 document order (no multi-selector segment over several inputs involved)", c));
            }
            Ok(())
        }
        Err(e) => Err(Failure::new(format!("valid query failed: {:?}", e), case_json(&text, &doc))),
    }
}

/// long selector lists (8 .. 70 selectors) on one object / array: results in the order written,
/// duplicates kept
fn random_wide_unions(src: &mut Src, obs: &mut Obs) -> Res {
    let m = *src.pick(&[8usize, 15, 16, 17, 31, 32, 33, 64, 70]);
    let on_object = src.bool();
    let doc = if on_object {
        J::Obj((0..m + 3).map(|i| (format!("k{:02}", i), J::Int(i as i64))).collect())
    } else {
        J::Arr((0..m + 3).map(|i| J::Int(i as i64)).collect())
    };
    let nsel = m.min(8 + src.below(m));
    let mut sels = vec![];
    for _ in 0..nsel {
        let i = src.below(m + 5);
        sels.push(if on_object {
            let name = format!("k{:02}", i);
            if src.chance(1, 12) {
                Sel::Wild
            } else {
                Sel::Name(if src.bool() { StrLit::with_quote(&name, Quote::S) } else { StrLit::with_quote(&name, Quote::D) })
            }
        } else {
            match src.below(8) {
                0 => Sel::Slice(Some(i as i64), Some(i as i64 + 2), None, false),
                1 => Sel::Index(-(i as i64) - 1),
                _ => Sel::Index(i as i64),
            }
        });
    }
    // all names (or all indices) most of the time: the shape a "batch lookup" shortcut would take
    let q = Query { abs: true, segs: vec![Seg { desc: false, sels, dot: false }] };
    let text = render_plain(&q);
    obs.label(if on_object { "wide-name-union" } else { "wide-index-union" });
    // K2 (path text of double-quoted selectors) is irrelevant here: only locations are compared
    check(&q, &text, &doc.sorted(), obs)
}

fn box_small(obs: &mut Obs, thorough: bool) -> Res {
    crate::props::c01::small_box(obs, thorough, |q, t, d, o| check(q, t, d, o))
}

/// long lists of records under everyday queries (see `gen::gen_long_records`)
fn random_long_record_lists(src: &mut Src, obs: &mut Obs) -> Res {
    let (doc, text) = gen_long_records(src);
    let q = match crate::recog::parse_ast(&text) {
        Some(q) => q,
        None => return Err(Failure::new("harness inconsistency: the long-list family produced a query outside the recogniser's language", json!({"query": text}))),
    };
    obs.label("long-record-list");
    check(&q, &text, &doc, obs)
}

fn direct(case: &Value, obs: &mut Obs) -> Res {
    let (q, text, doc) = parse_direct(case)?;
    check(&q, &text, &doc, obs)
}

/// "object members in the document's own member order": a data type that keeps its members in insertion
/// order (not sorted, unlike the default serde_json::Value) must see them visited in that order
fn random_member_order_of_the_view(src: &mut Src, obs: &mut Obs) -> Res {
    crate::props::c15::unsorted_case(src, obs, ID, true)
}

pub fn prop() -> Prop {
    Prop {
        id: ID,
        rule: "random (document, query) pairs biased to multi-selector segments, segments with several input nodes, negative slice steps and descendants; \
               exact sequence comparison with the reference evaluator (breadth-first descendant order accepted as the RFC permits it). \
               Non-trivial: the result has >= 2 nodes and some segment received > 1 input node or has > 1 selector. Distinct by (query text, document text). \
               The same queries on a harness type implementing Queryable whose members are kept in a shuffled insertion order: the result must follow that order (locations by address against the reference evaluator run on that order).",
        assumptions: vec![
            "reference semantics in harness/src/oracle.rs (self-tested on the RFC tables); descendants in pre-order, members in the document's own (sorted, for serde_json::Value) order",
            "a breadth-first visiting order of a descendant segment is accepted as valid (RFC 9535 2.5.2.2); any other order is reported",
        ],
        subs: vec![
            Sub { name: "box-small", kind: Kind::Exhaustive(box_small) },
            Sub { name: "random-wide-unions", kind: Kind::Random { f: random_wide_unions, quick: 20_000, thorough: 400_000, len: 300 } },
            Sub {
                name: "random-order",
                kind: Kind::Random { f: random_order, quick: 200_000, thorough: 4_000_000, len: 400 },
            },
            Sub { name: "random-long-record-lists", kind: Kind::Random { f: random_long_record_lists, quick: 2_400, thorough: 48_000, len: 20000 } },
            Sub { name: "random-or-chains", kind: Kind::Random { f: random_or_chains, quick: 40_000, thorough: 800_000, len: 200 } },
            Sub { name: "random-hostile-names", kind: Kind::Random { f: random_hostile_names, quick: 80_000, thorough: 1_600_000, len: 400 } },
            Sub { name: "random-member-order-of-the-view", kind: Kind::Random { f: random_member_order_of_the_view, quick: 100_000, thorough: 2_000_000, len: 500 } },
            Sub {
                name: "random-k1-free",
                kind: Kind::Random { f: random_no_k1, quick: 200_000, thorough: 4_000_000, len: 400 },
            },
        ],
        direct: Some(direct),
        selftest: Some(crate::rfc::selftest),
        fuzz: Some(FuzzSpec { target: "evaldiff", runs: 10000, max_len: 1000, tag: "C02", seed_corpus: None }),
        insertion_order_stage: true,
    }
}
