//! C13 — equivalent spellings of a query give the same result (metamorphic)

use crate::ast::*;
use crate::engine::*;
use crate::gen::*;
use crate::json::*;
use crate::libx;
use crate::oracle;
use crate::spell::*;
use crate::src::Src;
use serde_json::{json, Value};

pub const ID: &str = "C13";

fn run(text: &str, v: &Value, map: &std::collections::HashMap<usize, Loc>) -> Result<Vec<Option<Loc>>, String> {
    match libx::query_with_path(v, map, text) {
        Ok(n) => Ok(n.iter().map(|x| x.loc.clone()).collect()),
        Err(e) => Err(format!("{:?}", e)),
    }
}

fn explained(q: &Query, doc: &J, got: &Vec<Option<Loc>>, obs: &mut Obs, case: &dyn Fn() -> Value) -> bool {
    match attribute(ID, got, |k| oracle::eval(q, doc, k).iter().map(|n| Some(n.loc())).collect::<Vec<_>>()) {
        Attribution::Strict => true,
        Attribution::Known(bits) => {
            for id in finding_ids_for_bits(ID, bits) {
                obs.known(&id, || case());
            }
            true
        }
        Attribution::Unexplained => false,
    }
}

fn check(src: &mut Src, q0: &Query, doc: &J, k: usize, cfg: &SpellCfg, obs: &mut Obs) -> Res {
    let v = doc.to_value();
    let map = node_map(&v);
    let t0 = render_plain(q0);
    obs.eval(1);
    let base = match run(&t0, &v, &map) {
        Ok(r) => r,
        Err(e) => return Err(Failure::new(format!("the base spelling of a valid query fails: {}", e), json!({"query": t0, "doc": doc.to_value()}))),
    };
    let mut spellings = vec![t0.clone()];
    let mut differs_beyond_blanks = false;
    for _ in 0..k {
        let qi = re_query(src, q0, cfg);
        let plain_i = render_plain(&qi);
        if plain_i != t0 {
            differs_beyond_blanks = true;
        }
        let blanks = src.chance(2, 3);
        let ti = render_with_blanks(src, &qi, blanks);
        obs.eval(1);
        let case = || json!({"doc": doc.to_value(), "spelling_0": t0, "spelling_i": ti});
        match run(&ti, &v, &map) {
            Ok(r) => {
                if r != base {
                    // not equal: each side must be explained by the reference semantics or an open finding
                    let e0 = explained(q0, doc, &base, obs, &case);
                    let ei = explained(&qi, doc, &r, obs, &case);
                    if !(e0 && ei) {
                        let mut c = case();
                        c["result_0"] = json!(base.iter().map(|l| l.as_ref().map(|l| normalized_path(l))).collect::<Vec<_>>());
                        c["result_i"] = json!(r.iter().map(|l| l.as_ref().map(|l| normalized_path(l))).collect::<Vec<_>>());
                        return Err(Failure::new("two equivalent spellings of one query select different nodes (or in a different order)", c));
                    }
                }
            }
            Err(e) => {
                return Err(Failure::new(format!("one spelling parses and evaluates, an equivalent spelling fails: {}", e), case()));
            }
        }
        spellings.push(ti);
    }
    if differs_beyond_blanks {
        obs.nontrivial(&(t0.as_str(), doc.text()), || json!({"doc": doc.to_value(), "spellings": spellings}));
    }
    Ok(())
}

fn gen_case(src: &mut Src, special: bool) -> (J, Query) {
    let mut cfg = GenCfg::plain();
    cfg.special_keys = special;
    cfg.special_literals = special;
    cfg.regex = false;
    let doc = gen_doc(src, &cfg).sorted();
    let q = gen_query(src, &doc, &cfg);
    (doc, q)
}

fn random_spellings(src: &mut Src, obs: &mut Obs) -> Res {
    let (doc, q) = gen_case(src, false);
    crate::props::c01::labels(&q, obs);
    check(src, &q, &doc, 6, &SpellCfg { escapes: false }, obs)
}

/// also escape spellings of characters in names and literals (region of the open findings K3 / K4)
fn random_spellings_escapes(src: &mut Src, obs: &mut Obs) -> Res {
    let (doc, q) = gen_case(src, true);
    obs.label("escape-spellings");
    check(src, &q, &doc, 4, &SpellCfg { escapes: true }, obs)
}

/// long lists of records with an optional member under a filter that is ONE test (the query every user writes):
/// `?e`, `?(e)` and `?((e))`, `.n` and `['n']`, blanks and number spellings select the same records - also
/// the records that lack the member, also beyond 32 / 64 / 256 elements
fn random_record_filters(src: &mut Src, obs: &mut Obs) -> Res {
    let n = *src.pick(&[3usize, 31, 32, 33, 40, 64, 65, 100, 257]);
    let vals = [J::Str("admin".into()), J::Str("user".into()), J::Int(1), J::Int(2), J::Null, J::Bool(true), J::Float(1.0)];
    let rows: Vec<J> = (0..n)
        .map(|i| {
            if src.chance(1, 12) {
                return src.pick(&[J::Null, J::Int(i as i64), J::Str("admin".into()), J::Arr(vec![])]).clone();
            }
            let mut m: Vec<(String, J)> = vec![("id".to_string(), J::Int(i as i64))];
            if !src.chance(1, 4) {
                m.push(("role".to_string(), src.pick(&vals).clone()));
            }
            J::Obj(m).sorted()
        })
        .collect();
    let under = src.bool();
    let doc = if under { J::Obj(vec![("users".to_string(), J::Arr(rows))]) } else { J::Arr(rows) };
    let op = src.pick(&Op::ALL).text();
    let lit = *src.pick(&["'admin'", "1", "null", "true", "2"]);
    let test = match src.below(8) {
        0 => format!("{} {} @.role", lit, op),
        1 => "@.role".to_string(),
        2 => "!@.role".to_string(),
        3 => format!("length(@.role) {} 4", op),
        4 => "match(@.role, 'a.*')".to_string(),
        _ => format!("@.role {} {}", op, lit),
    };
    let text = format!("{}[?{}]", if under { "$.users" } else { "$" }, test);
    let q = match crate::recog::parse_ast(&text) {
        Some(q) => q,
        None => return Err(Failure::new("harness inconsistency: the record-filter family produced a query outside the recogniser's language", json!({"query": text}))),
    };
    obs.label("record-filter");
    check(src, &q, &doc, 5, &SpellCfg { escapes: false }, obs)
}

/// a record projection as a program writes it: one bracketed selection of 2-33 names (present and absent ones,
/// repeated ones), on one record, on every record of a list, below `..` and inside a filter - in all spellings
fn random_projections(src: &mut Src, obs: &mut Obs) -> Res {
    let names = ["id", "name", "email", "phone", "street", "city", "zip", "country", "created", "updated", "first name", "a-b", "k.1", "é", "tags", "x"];
    let rec = |src: &mut Src, i: usize| -> J {
        let mut m: Vec<(String, J)> = vec![];
        for nm in names.iter() {
            if !src.chance(1, 4) {
                m.push((nm.to_string(), if src.chance(1, 6) { J::Arr(vec![J::Int(i as i64)]) } else { J::Int(i as i64) }));
            }
        }
        J::Obj(m).sorted()
    };
    let doc = J::Obj(vec![("user".to_string(), rec(src, 0)), ("users".to_string(), J::Arr((1..1 + src.below(4)).map(|i| rec(src, i)).collect()))]).sorted();
    let k = *src.pick(&[2usize, 3, 7, 8, 9, 12, 16, 17, 33]);
    let sel: Vec<String> = (0..k).map(|_| if src.chance(1, 10) { "'missing'".to_string() } else { format!("'{}'", src.pick(&names)) }).collect();
    let head = *src.pick(&["$.user", "$.user", "$.users[*]", "$.users[0]", "$..", "$.users[?@"]);
    let text = if head.ends_with('@') { format!("{}[{}]]", head, sel.join(",")) } else if head == "$.." { format!("$..[{}]", sel.join(",")) } else { format!("{}[{}]", head, sel.join(",")) };
    let q = match crate::recog::parse_ast(&text) {
        Some(q) => q,
        None => return Err(Failure::new("harness inconsistency: the projection family produced a query outside the recogniser's language", json!({"query": text}))),
    };
    obs.label("projection");
    check(src, &q, &doc, 5, &SpellCfg { escapes: false }, obs)
}

/// numbers: integer / float / exponent spellings compare alike, on both sides of every operator
fn random_numbers(src: &mut Src, obs: &mut Obs) -> Res {
    let vals = [0i64, 1, -1, 10, 100, -100, 7, 1000, 120, 5, 110, 410, 115, 11, 33, 1234, -297];
    let a = *src.pick(&vals);
    let elems: Vec<J> = vals.iter().map(|x| if src.bool() { J::Int(*x) } else { J::Float(*x as f64) }).collect();
    let doc = J::Arr(elems);
    let op = *src.pick(&Op::ALL);
    let cur = Cmpable::Sing(Sing { abs: false, steps: vec![] });
    let one = |src: &mut Src, a: i64, op: Op| {
        let lit = Cmpable::Lit(Lit::Num(num_lit_int(a)));
        if src.bool() { Expr::Cmp(Box::new(cur.clone()), op, Box::new(lit)) } else { Expr::Cmp(Box::new(lit), op, Box::new(cur.clone())) }
    };
    // a single comparison, or a chain of alternatives / conjuncts over the same subject
    let e = match src.below(4) {
        0 | 1 => one(src, a, op),
        2 => {
            let n = 2 + src.below(3);
            Expr::Or((0..n).map(|_| { let x = *src.pick(&vals); one(src, x, Op::Eq) }).collect())
        }
        _ => {
            let n = 2 + src.below(2);
            Expr::And((0..n).map(|_| { let x = *src.pick(&vals); let o = *src.pick(&[Op::Ne, Op::Ge, Op::Le]); one(src, x, o) }).collect())
        }
    };
    let q = Query { abs: true, segs: vec![Seg { desc: false, sels: vec![Sel::Filter(e)], dot: false }] };
    obs.label("number-spellings");
    check(src, &q, &doc, 6, &SpellCfg { escapes: false }, obs)
}

fn direct(case: &Value, obs: &mut Obs) -> Res {
    // {"doc":..., "spellings":[...]} : all must give the same locations
    let doc = J::from_value(&case["doc"]);
    let v = doc.to_value();
    let map = node_map(&v);
    let mut base: Option<(Vec<Option<Loc>>, String)> = None;
    for s in case["spellings"].as_array().cloned().unwrap_or_default() {
        let t = s.as_str().unwrap_or("").to_string();
        obs.eval(1);
        let r = run(&t, &v, &map).map_err(|e| Failure::new(format!("spelling fails: {}", e), json!({"doc": case["doc"], "spelling": t})))?;
        match &base {
            None => base = Some((r, t)),
            Some((b, t0)) => {
                if *b != r {
                    let c = || json!({"doc": case["doc"], "spelling_0": t0, "spelling_i": t});
                    let (q0, qi) = match (crate::recog::parse_ast(t0), crate::recog::parse_ast(&t)) {
                        (Some(a), Some(b)) => (a, b),
                        _ => return Err(Failure::new("direct case: a spelling is not in the recogniser's language", c())),
                    };
                    if !(explained(&q0, &doc, b, obs, &c) && explained(&qi, &doc, &r, obs, &c)) {
                        return Err(Failure::new("equivalent spellings select different nodes", c()));
                    }
                }
            }
        }
    }
    Ok(())
}

pub fn prop() -> Prop {
    Prop {
        id: ID,
        rule: "one abstract query rendered in several independently chosen spellings: .name / ['name'] / [\"name\"], .* / [*], ..name / ..['name'], ?e / ?(e) / redundant parentheses, dropped redundant parentheses, optional second colon of a slice, \
               blanks from {SP, HT, LF, CR} at every S position, integer / fraction / exponent spellings of numbers, (separately) escape spellings of characters; all spellings must return the same sequence of node addresses on the same document. \
               Non-trivial: at least two spellings differ in more than blanks. Distinct by (base spelling, document).",
        assumptions: vec![
            "metamorphic oracle (library against itself); when two spellings differ, each side is compared with the reference evaluator so that only open findings (K1 order, K3/K4 escapes) can explain the difference",
        ],
        subs: vec![
            Sub { name: "random-spellings", kind: Kind::Random { f: random_spellings, quick: 60_000, thorough: 1_200_000, len: 700 } },
            Sub { name: "random-spellings-escapes", kind: Kind::Random { f: random_spellings_escapes, quick: 30_000, thorough: 600_000, len: 700 } },
            Sub { name: "random-numbers", kind: Kind::Random { f: random_numbers, quick: 30_000, thorough: 600_000, len: 200 } },
            Sub { name: "random-projections", kind: Kind::Random { f: random_projections, quick: 20_000, thorough: 400_000, len: 700 } },
            Sub { name: "random-record-filters", kind: Kind::Random { f: random_record_filters, quick: 12_000, thorough: 240_000, len: 700 } },
        ],
        direct: Some(direct),
        selftest: Some(crate::rfc::selftest),
        fuzz: None,
        insertion_order_stage: false,
    }
}
