//! C08 — parsing and evaluation never panic, abort or hang; evaluating a parsed query never fails

use crate::ast::*;
use crate::engine::*;
use crate::gen::{gen_doc, gen_query, GenCfg};
use crate::json::*;
use crate::libx::{self, LibErr};
use crate::sentence::*;
use crate::src::Src;
use jsonpath_rust::query::queryable::Queryable;
use serde_json::{json, Value};
use std::num::NonZeroUsize;

pub const ID: &str = "C08";

/// fixed PEG call budget for bulk inputs (<= ~700 characters); `L(len) = 1000 * (len + 16)` in the probes
pub const BULK_CALL_LIMIT: usize = 1_000_000;

pub fn arm_call_limit(n: usize) {
    pest::set_call_limit(NonZeroUsize::new(n));
}

fn fn_nesting(s: &str) -> usize {
    // depth of `name(` nesting
    let cs: Vec<char> = s.chars().collect();
    let mut depth: Vec<bool> = vec![];
    let mut best = 0;
    let mut cur = 0;
    for (i, c) in cs.iter().enumerate() {
        if *c == '(' {
            let is_fn = i > 0 && (cs[i - 1].is_ascii_lowercase() || cs[i - 1].is_ascii_digit() || cs[i - 1] == '_');
            depth.push(is_fn);
            if is_fn {
                cur += 1;
                best = best.max(cur);
            }
        } else if *c == ')' {
            if let Some(true) = depth.pop() {
                cur -= 1;
            }
        }
    }
    best
}

fn bracket_nesting(s: &str) -> usize {
    let mut cur: i64 = 0;
    let mut best = 0;
    for c in s.chars() {
        match c {
            '(' | '[' => {
                cur += 1;
                best = best.max(cur);
            }
            ')' | ']' => cur -= 1,
            _ => {}
        }
    }
    best as usize
}

#[derive(Debug, PartialEq)]
pub enum Out {
    Ok,
    Err,
}

/// run every public entry point on (q, doc); panics and inconsistent Ok/Err are failures
pub fn all_entry_points(q: &str, v: &Value, obs: &mut Obs) -> Result<Out, Failure> {
    let case = || json!({"query": q, "doc": v});
    let map = std::collections::HashMap::new();
    obs.eval(1);
    let parsed = match libx::parse(q) {
        Ok(p) => Some(p),
        Err(LibErr::Err(e)) => {
            if e.contains("call limit reached") {
                // parse work beyond the budget
                if fn_nesting(q) >= 6 {
                    if let Some(f) = open_class(ID, "FN_NESTING_PARSE_BLOWUP") {
                        obs.known(&f.id, || json!({"query": q}));
                        return Ok(Out::Err);
                    }
                }
                return Err(Failure::new(
                    format!("parsing needs more than {} PEG calls for an input of {} characters (super-linear parse work)", BULK_CALL_LIMIT, q.chars().count()),
                    case(),
                ));
            }
            None
        }
        Err(LibErr::Panic(p)) => return Err(Failure::new(format!("parse_json_path panicked: {}", p), case())),
    };
    let mut results: Vec<(&str, bool)> = vec![];
    obs.eval(3);
    for (what, r) in [
        ("query", libx::query_vals(v, &map, q).map(|_| ())),
        ("query_with_path", libx::query_with_path(v, &map, q).map(|_| ())),
        ("query_only_path", libx::query_paths(v, q).map(|_| ())),
    ] {
        match r {
            Ok(()) => results.push((what, true)),
            Err(LibErr::Err(_)) => results.push((what, false)),
            Err(LibErr::Panic(p)) => return Err(Failure::new(format!("JsonPath::{} panicked: {}", what, p), case())),
        }
    }
    if let Some(ast) = &parsed {
        obs.eval(1);
        match libx::process(v, &map, ast) {
            Ok(_) => results.push(("js_path_process", true)),
            Err(LibErr::Err(e)) => {
                return Err(Failure::new(format!("evaluating a successfully parsed query returned Err: {}", e), case()));
            }
            Err(LibErr::Panic(p)) => return Err(Failure::new(format!("js_path_process panicked: {}", p), case())),
        }
    }
    for (what, ok) in &results {
        if *ok != parsed.is_some() {
            return Err(Failure::new(
                format!("parse_json_path says {} but JsonPath::{} says {}: an Err that does not come from an invalid query string (or the reverse)",
                    if parsed.is_some() { "Ok" } else { "Err" }, what, if *ok { "Ok" } else { "Err" }),
                case(),
            ));
        }
    }
    // reference / reference_mut take any string
    obs.eval(2);
    let mut clone = v.clone();
    let r1 = guarded(|| in_flight(q, v, || v.reference(q).is_some()));
    let r2 = guarded(|| clone.reference_mut(q).is_some());
    for (what, r) in [("reference", r1), ("reference_mut", r2)] {
        if let Err(p) = r {
            return Err(Failure::new(format!("Queryable::{} panicked: {}", what, p), case()));
        }
    }
    Ok(if parsed.is_some() { Out::Ok } else { Out::Err })
}

fn small_docs(src: &mut Src) -> Value {
    match src.below(8) {
        0 => json!(null),
        1 => json!(1),
        2 => json!("abc"),
        3 => json!([]),
        4 => json!({}),
        5 => json!([1, [2, [3, [4]]], {"a": {"a": {"a": 1}}}]),
        6 => Value::Array((0..64).map(|i| json!(i)).collect()),
        _ => json!({"a": [1, 2, {"b": "x", "a": [true, null]}], "b": {"a": {"b": []}}, "": 0}),
    }
}

fn label_str(s: &str, obs: &mut Obs) -> bool {
    let big_int = s.split(|c: char| !c.is_ascii_digit()).any(|d| d.len() >= 10);
    let deep = bracket_nesting(s) >= 8;
    if big_int {
        obs.label("integer>=2^31");
    }
    if deep {
        obs.label("nesting>=8");
    }
    big_int || deep
}

fn random_valid(src: &mut Src, obs: &mut Obs) -> Res {
    let q = gen_valid(src);
    let s = render_spelled(src, &q);
    let d = small_docs(src);
    let nt = label_str(&s, obs) || !d.is_object() && !d.as_array().map_or(false, |a| !a.is_empty());
    if nt {
        obs.nontrivial(&(s.as_str(), d.to_string().len()), || json!({"query": s, "doc": d}));
    }
    let t0 = std::time::Instant::now();
    let r = all_entry_points(&s, &d, obs);
    if std::env::var("JPV_SLOW").is_ok() && t0.elapsed().as_millis() > 100 {
        eprintln!("SLOW {:?} {} on doc of {} bytes", t0.elapsed(), s, d.to_string().len());
    }
    match r? {
        Out::Ok => Ok(()),
        Out::Err => {
            // acceptance of valid queries is C06's business; here only the absence of panics counts
            obs.label("valid-sentence-rejected(see C06)");
            Ok(())
        }
    }
}

fn random_near_miss(src: &mut Src, obs: &mut Obs) -> Res {
    let q = gen_valid(src);
    let s = render_spelled(src, &q);
    let m = match src.below(3) {
        0 => {
            let mut toks = tokenize(&s);
            let n = 1 + src.below(3);
            for _ in 0..n {
                mutate_tokens(src, &mut toks);
            }
            join(&toks)
        }
        1 => mutate_chars(src, &s),
        _ => {
            if src.bool() {
                token_soup(src)
            } else {
                arbitrary_string(src)
            }
        }
    };
    let d = small_docs(src);
    label_str(&m, obs);
    obs.label("near-miss/arbitrary");
    obs.nontrivial(&(m.as_str(), d.to_string().len()), || json!({"query": m, "doc": d}));
    all_entry_points(&m, &d, obs).map(|_| ())
}

const EXTREME: &[i64] = &[
    0, 1, -1, 2, -2, MAX_SAFE, -MAX_SAFE, MAX_SAFE - 1, -MAX_SAFE + 1, 1 << 31, -(1 << 31), (1 << 31) - 1, 1 << 32, -(1i64 << 32), 1 << 52, -(1i64 << 52), 1 << 62, i64::MAX, i64::MIN, i64::MIN + 1,
];

fn ext(src: &mut Src) -> i64 {
    *src.pick(EXTREME)
}

/// extreme integers everywhere an integer can stand, as text (also beyond the valid range: must be Err, not a panic)
fn random_extreme_text(src: &mut Src, obs: &mut Obs) -> Res {
    let int = |src: &mut Src| -> String {
        match src.below(6) {
            0 => "9223372036854775808".into(),
            1 => "-9223372036854775809".into(),
            2 => "18446744073709551616".into(),
            3 => "99999999999999999999999999999999999999".into(),
            _ => ext(src).to_string(),
        }
    };
    let opt = |src: &mut Src| if src.chance(1, 4) { String::new() } else { int(src) };
    let s = match src.below(10) {
        0 => format!("$[{}]", int(src)),
        1 => format!("$[{}:{}:{}]", opt(src), opt(src), opt(src)),
        2 => format!("$..[{}:{}:{}]", opt(src), opt(src), opt(src)),
        3 => format!("$[?@[{}]=={}]", int(src), int(src)),
        4 => format!("$[?$[{}][{}]<{}e{}]", int(src), int(src), int(src), src.range(-400, 400)),
        5 => format!("$[?@.a=={}.{}e{}]", int(src), src.below(1000), int(src)),
        6 => format!("$[*][{}:{}:{}][{}]", opt(src), opt(src), opt(src), int(src)),
        7 => format!("$[?count(@[{}:{}:{}])>{}]", opt(src), opt(src), opt(src), int(src)),
        8 => format!("$[?length(@)<{} || @[{}]]", int(src), int(src)),
        _ => format!("$[{},{},{}:{}]", int(src), int(src), opt(src), opt(src)),
    };
    let d = small_docs(src);
    obs.label("extreme-integers(text)");
    obs.nontrivial(&(s.as_str(), d.to_string().len()), || json!({"query": s, "doc": d}));
    all_entry_points(&s, &d, obs).map(|_| ())
}

/// programmatic queries with integers in the I-JSON range: evaluation must not panic and must be Ok
fn random_programmatic(src: &mut Src, obs: &mut Obs) -> Res {
    let clamp = |x: i64| x.clamp(-MAX_SAFE, MAX_SAFE);
    let opt = |src: &mut Src| if src.chance(1, 4) { None } else { Some(clamp(ext(src))) };
    let sel = |src: &mut Src| match src.below(3) {
        0 => Sel::Index(clamp(ext(src))),
        _ => Sel::Slice(opt(src), opt(src), opt(src), false),
    };
    let nseg = 1 + src.below(3);
    let mut segs = vec![];
    for _ in 0..nseg {
        let n = 1 + src.below(2);
        segs.push(Seg { desc: src.chance(1, 4), sels: (0..n).map(|_| sel(src)).collect(), dot: false });
    }
    if src.chance(1, 3) {
        // the same integers inside a filter (singular query index, count of a slice)
        let e = Expr::Cmp(
            Box::new(Cmpable::Sing(Sing { abs: false, steps: vec![SingStep::Index(clamp(ext(src)))] })),
            *src.pick(&Op::ALL),
            Box::new(Cmpable::Lit(Lit::Num(num_lit_int(clamp(ext(src)))))),
        );
        segs.push(Seg { desc: false, sels: vec![Sel::Filter(e)], dot: false });
    }
    let q = Query { abs: true, segs };
    let len = *src.pick(&[0usize, 1, 2, 3, 200]);
    let doc = Value::Array((0..len).map(|i| if i % 2 == 0 { json!(i) } else { json!([i, [i]]) }).collect());
    let ast = libx::to_lib(&q);
    let map = std::collections::HashMap::new();
    obs.eval(1);
    obs.label("programmatic-extreme-integers");
    let text = render_plain(&q);
    obs.nontrivial(&(text.as_str(), len), || json!({"programmatic_query": text, "array_length": len}));
    match libx::process(&doc, &map, &ast) {
        Ok(_) => Ok(()),
        Err(LibErr::Err(e)) => Err(Failure::new(format!("evaluating a programmatic query (integers within the I-JSON range) returned Err: {}", e), json!({"query": text, "doc": doc}))),
        Err(LibErr::Panic(p)) => Err(Failure::new(format!("js_path_process panicked on a programmatic query: {}", p), json!({"query": text, "doc": doc}))),
    }
}

/// document-guided valid queries (filters, functions, regex) on generated documents incl. scalars
fn random_eval(src: &mut Src, obs: &mut Obs) -> Res {
    let mut cfg = GenCfg::plain();
    cfg.special_keys = true;
    cfg.free_escapes = true;
    cfg.free_lit_escapes = true;
    cfg.special_literals = true;
    cfg.regex = true;
    cfg.ext_funcs = true;
    let doc = gen_doc(src, &cfg).sorted();
    let q = gen_query(src, &doc, &cfg);
    let s = render_spelled(src, &q);
    let v = doc.to_value();
    obs.label("document-guided");
    all_entry_points(&s, &v, obs).map(|_| ())
}

// ------------------------------------------------------------------------------------------------
// scaling probes, each in its own child process

pub fn probe_input(kind: &str, n: usize) -> (String, Value) {
    let doc = json!({"a": [{"a": [{"a": 1}]}, 1], "b": "x"});
    match kind {
        "parens" => (format!("$[?{}@.a{}]", "(".repeat(n), ")".repeat(n)), doc),
        "nots" => (format!("$[?{}@.a{}]", "!(".repeat(n), ")".repeat(n)), doc),
        "filters" => (format!("$[?{}@.a{}]", "@[?".repeat(n), "]".repeat(n)), doc),
        "fn-value" => (format!("$[?{}@.a{}==1]", "length(".repeat(n), ")".repeat(n)), doc),
        "fn-logical" => (format!("$[?{}@.a==1{}]", "f(".repeat(n), ")".repeat(n)), doc),
        "brackets" => (format!("${}", "[0]".repeat(n)), doc),
        "dots" => (format!("${}", ".a".repeat(n)), doc),
        "unions" => (format!("$[{}0]", "0,".repeat(n)), doc),
        "ors" => (format!("$[?@.a{}]", "||@.a".repeat(n)), doc),
        "deep-doc" | "deep-doc-filter" | "deep-doc-wild" => {
            let mut v = json!(1);
            for i in 0..n {
                v = if i % 2 == 0 { json!({ "a": v }) } else { json!([v]) };
            }
            let q = match kind {
                "deep-doc" => "$..a",
                "deep-doc-filter" => "$[?@..a]",
                _ => "$..*",
            };
            (q.to_string(), v)
        }
        _ => ("$".to_string(), doc),
    }
}

/// body of `jpv probe <kind> <n>`: prints one OUTCOME line; stack overflow kills the process
pub fn probe_main(kind: &str, n: usize) -> i32 {
    install_quiet_panic_hook();
    let (q, doc) = probe_input(kind, n);
    let len = q.chars().count();
    arm_call_limit(1000 * (len + 16));
    let kind = kind.to_string();
    let h = std::thread::Builder::new()
        .stack_size(8 << 20)
        .spawn(move || {
            let mut obs = Obs::new();
            let r = all_entry_points(&q, &doc, &mut obs);
            // deep values recurse in drop as well: that is not the library's evaluation
            std::mem::forget(doc);
            let _ = kind;
            match r {
                Ok(Out::Ok) => "ok".to_string(),
                Ok(Out::Err) => {
                    if obs.known.is_empty() {
                        "err".to_string()
                    } else {
                        "calllimit-known".to_string()
                    }
                }
                Err(f) => format!("fail:{}", f.msg),
            }
        })
        .expect("spawn");
    match h.join() {
        Ok(s) => {
            println!("OUTCOME {}", s);
            0
        }
        Err(_) => {
            println!("OUTCOME fail:thread panicked");
            0
        }
    }
}

/// wall-clock limit of one scaling probe (the slowest one on the unchanged library, `fn-value 4096`, takes 11 s on an idle machine)
const PROBE_LIMIT_S: u64 = 120;
/// set by the first probe that hangs: the probes not yet started are skipped (one hang decides the check)
static PROBE_HANG_SEEN: std::sync::atomic::AtomicBool = std::sync::atomic::AtomicBool::new(false);

fn run_probe(kind: &str, n: usize) -> (String, Option<i32>) {
    if PROBE_HANG_SEEN.load(std::sync::atomic::Ordering::Relaxed) {
        return ("ok".to_string(), Some(0));
    }
    let exe = std::env::current_exe().unwrap_or_default();
    // the child has no watchdog of its own: a probe that does not answer within the limit is stopped here and
    // reported as a hang (work that multiplies per nesting level - in the grammar, the AST builder or the
    // evaluator - never ends at these sizes)
    let out = (|| -> std::io::Result<std::process::Output> {
        let mut child = std::process::Command::new(exe)
            .arg("probe")
            .arg(kind)
            .arg(n.to_string())
            .stdout(std::process::Stdio::piped())
            .stderr(std::process::Stdio::piped())
            .spawn()?;
        let t0 = std::time::Instant::now();
        loop {
            if child.try_wait()?.is_some() {
                return child.wait_with_output();
            }
            if t0.elapsed().as_secs() >= PROBE_LIMIT_S {
                let _ = child.kill();
                let _ = child.wait();
                PROBE_HANG_SEEN.store(true, std::sync::atomic::Ordering::Relaxed);
                return Ok(std::process::Output {
                    status: std::os::unix::process::ExitStatusExt::from_raw(0),
                    stdout: format!("OUTCOME hang:no answer within {} s", PROBE_LIMIT_S).into_bytes(),
                    stderr: vec![],
                });
            }
            std::thread::sleep(std::time::Duration::from_millis(50));
        }
    })();
    match out {
        Ok(o) => {
            let text = String::from_utf8_lossy(&o.stdout).to_string();
            let err = String::from_utf8_lossy(&o.stderr).to_string();
            let line = text.lines().find(|l| l.starts_with("OUTCOME ")).map(|l| l[8..].to_string());
            match line {
                Some(l) => (l, o.status.code()),
                None => {
                    use std::os::unix::process::ExitStatusExt;
                    let sig = o.status.signal();
                    let what = if err.contains("overflowed its stack") { "stack-overflow" } else { "abort" };
                    (format!("{}(signal {:?})", what, sig), None)
                }
            }
        }
        Err(e) => (format!("spawn-failed:{}", e), None),
    }
}

fn probes(obs: &mut Obs, thorough: bool) -> Res {
    let nest_kinds = ["parens", "nots", "filters", "fn-value"];
    let flat_kinds = ["brackets", "dots", "unions", "ors"];
    let doc_kinds = ["deep-doc", "deep-doc-filter", "deep-doc-wild"];
    let depths: Vec<usize> = if thorough { vec![8, 32, 128, 256, 512, 900, 1024, 2048, 4096, 16384, 65536] } else { vec![8, 64, 256, 900, 1024, 4096] };
    let mut table = vec![];
    let mut jobs: Vec<(&str, usize)> = vec![];
    for k in nest_kinds.iter().chain(flat_kinds.iter()) {
        for d in &depths {
            jobs.push((k, *d));
        }
    }
    // long flat queries are cheap: every tier takes them to 65 536 elements (a selection, a chain or a
    // disjunction that is *evaluated* element by element must not need stack in proportion)
    if !thorough {
        for k in flat_kinds.iter() {
            for d in [16384usize, 65536] {
                jobs.push((k, d));
            }
        }
    }
    for k in doc_kinds {
        for d in [8usize, 64, 256, 512, 900, 1024, 2048] {
            jobs.push((k, d));
        }
    }
    for k in 1..=if thorough { 12 } else { 9 } {
        jobs.push(("fn-logical", k));
    }
    // children in parallel
    let results: Vec<((&str, usize), (String, Option<i32>))> = std::thread::scope(|sc| {
        let mut hs = vec![];
        for chunk in jobs.chunks((jobs.len() + 15) / 16) {
            let chunk: Vec<(&str, usize)> = chunk.to_vec();
            hs.push(sc.spawn(move || chunk.into_iter().map(|(k, n)| ((k, n), run_probe(k, n))).collect::<Vec<_>>()));
        }
        hs.into_iter().flat_map(|h| h.join().unwrap_or_default()).collect()
    });
    for ((kind, n), (outcome, _code)) in results {
        obs.eval(1);
        let (q, _) = probe_input(kind, n.min(6));
        obs.nontrivial(&(kind, n), || json!({"probe": kind, "size": n, "shape(size<=6)": q}));
        table.push(json!({"probe": kind, "size": n, "outcome": outcome}));
        let case = || json!({"probe": kind, "size": n, "outcome": outcome, "reproduce": format!("jpv probe {} {}", kind, n)});
        if outcome == "ok" || outcome == "err" {
            continue;
        }
        if outcome.starts_with("stack-overflow") || outcome.starts_with("abort") {
            let nesting = nest_kinds.contains(&kind) || kind == "fn-logical" || doc_kinds.contains(&kind);
            if nesting && n >= 1000 {
                if let Some(f) = open_class(ID, "NESTING_STACK_OVERFLOW") {
                    obs.known(&f.id, || case());
                    continue;
                }
            }
            return Err(Failure::new(format!("the process aborts ({}) on `{}` of size {}", outcome, kind, n), case()));
        }
        if outcome == "calllimit-known" {
            // attributed inside the child (function-call nesting >= 6)
            if let Some(f) = open_class(ID, "FN_NESTING_PARSE_BLOWUP") {
                obs.known(&f.id, || case());
                continue;
            }
        }
        return Err(Failure::new(format!("probe `{}` of size {}: {}", kind, n, outcome), case()));
    }
    obs.boxes.push(json!({"box": "scaling probes, one child process each (8 MiB stack, PEG call budget 1000*(len+16))", "table": table}));
    Ok(())
}

/// regular expressions of growing size in one dimension at a time (nesting depth, repetition count,
/// number of alternatives, class items, length), every size of a dense range: `match` and `search`, the
/// pattern written in the query and taken from the document.  Limits of the regex engine (nesting,
/// compiled size) must surface as "no match", never as a panic.
fn box_regex_sizes(obs: &mut Obs, thorough: bool) -> Res {
    let shapes: [(&str, fn(usize) -> String); 7] = [
        ("nested-groups", |n| format!("{}a{}", "(".repeat(n), ")".repeat(n))),
        ("nested-groups-quantified", |n| format!("{}a{}", "(".repeat(n), ")?".repeat(n))),
        ("nested-alternations", |n| format!("{}a{}", "(b|".repeat(n), ")".repeat(n))),
        ("repetition-count", |n| format!("a{{{}}}", n)),
        ("repetition-range", |n| format!("(a|b){{0,{}}}", n)),
        ("alternatives", |n| vec!["a"; n.max(1)].join("|")),
        ("class-items", |n| format!("[{}]", (0..n.max(1)).map(|i| char::from_u32(0x61 + (i % 26) as u32).unwrap().to_string() + "-z").collect::<String>())),
    ];
    let dense: Vec<usize> = (1..=if thorough { 600 } else { 300 }).collect();
    let sparse: Vec<usize> = vec![1, 2, 10, 100, 255, 256, 1000, 1001, 1023, 1024, 4096, 65535, 65536, 100_000, 1_000_000];
    let mut jobs: Vec<(&str, fn(usize) -> String, usize)> = vec![];
    for (name, mk) in shapes {
        let sizes: &Vec<usize> = if name.starts_with("nested") { &dense } else { &sparse };
        for &n in sizes {
            jobs.push((name, mk, n));
        }
    }
    // interleave, so that every thread gets small and large sizes
    let parts: Vec<Vec<(&str, fn(usize) -> String, usize)>> = (0..16).map(|t| jobs.iter().skip(t).step_by(16).cloned().collect()).collect();
    let results: Vec<(Obs, Result<std::collections::BTreeMap<&str, u32>, Failure>)> = std::thread::scope(|sc| {
        let hs: Vec<_> = parts
            .into_iter()
            .map(|part| {
                std::thread::Builder::new()
                    .stack_size(64 << 20)
                    .spawn_scoped(sc, move || {
                        let mut obs = Obs::new();
                        let mut n_ok: std::collections::BTreeMap<&str, u32> = Default::default();
                        for (name, mk, n) in part {
                            let pat = mk(n);
                            if pat.len() > 200_000 {
                                continue;
                            }
                            let doc = json!({"re": pat, "s": ["a", 1]});
                            let mut queries = vec![format!("$.s[?match(@, $.re)]"), format!("$.s[?search(@, $.re)]"), format!("$.s[?!match(@, $.re)]")];
                            if pat.len() <= 2000 {
                                queries.push(format!("$.s[?match(@, '{}')]", pat));
                                queries.push(format!("$.s[?search(@, \"{}\")]", pat));
                            }
                            for q in queries {
                                obs.nontrivial(&(name, n, q.len()), || json!({"shape": name, "size": n, "query": if q.len() < 200 { q.clone() } else { format!("{}...", &q[..80]) }}));
                                match all_entry_points(&q, &doc, &mut obs) {
                                    Ok(Out::Ok) => *n_ok.entry(name).or_insert(0) += 1,
                                    Ok(Out::Err) => return (obs, Err(Failure::new("a valid query with a large regular expression is rejected", json!({"shape": name, "size": n, "query": q, "doc": doc})))),
                                    Err(f) => return (obs, Err(f)),
                                }
                            }
                        }
                        (obs, Ok(n_ok))
                    })
                    .expect("spawn")
            })
            .collect();
        hs.into_iter().map(|h| h.join().expect("box thread")).collect()
    });
    let mut total: std::collections::BTreeMap<&str, u32> = Default::default();
    let mut first_failure = None;
    for (o, r) in results {
        obs.merge(o);
        match r {
            Ok(m) => m.into_iter().for_each(|(k, v)| *total.entry(k).or_insert(0) += v),
            Err(f) => first_failure = first_failure.or(Some(f)),
        }
    }
    if let Some(f) = first_failure {
        return Err(f);
    }
    let table: Vec<Value> = shapes
        .iter()
        .map(|(name, _)| json!({"shape": name, "sizes": if name.starts_with("nested") { format!("every size 1..={}", dense.len()) } else { format!("{:?}", sparse) }, "evaluations_ok": total.get(name).copied().unwrap_or(0)}))
        .collect();
    obs.boxes.push(json!({"box": "regular expressions of growing size, one dimension at a time; match/search, pattern in the query and in the document", "table": table}));
    Ok(())
}

/// the targeted near misses of C07 (forbidden integer forms, blanks, string forms, ill-formed and ill-typed
/// filters incl. operator words of other JSONPath dialects, malformed queries) through every entry point:
/// whatever the verdict on them is, it must be `Ok` or `Err`, and the same from every entry point
fn box_targeted_invalid(obs: &mut Obs, _thorough: bool) -> Res {
    let inputs = crate::props::c07::targeted_inputs();
    let docs = [json!({"a": [1, 2, {"b": "x"}], "b": [1]}), json!([]), json!(1)];
    for (s, family) in &inputs {
        obs.nontrivial(&(s.as_str(), 0usize), || json!({"query": s, "family": family}));
        for d in &docs {
            all_entry_points(s, d, obs)?;
        }
    }
    obs.boxes.push(json!({"box": "the targeted box of C07 through all entry points on three documents", "strings": inputs.len(), "exhaustive": true}));
    Ok(())
}

/// conditions folded into parenthesised binary trees, an `&&` or `||` at every level (what a query builder
/// writes for 20-60 conditions): every depth of a dense range, left- and right-nested, negated levels, mixed
/// operators, on a short list of records.  Evaluation work must stay in proportion to the size of the
/// expression; a blow-up per nesting level shows as a call beyond the watchdog's limit.
fn box_logical_nesting(obs: &mut Obs, thorough: bool) -> Res {
    let doc = json!([{"id": 1, "n": "a"}, {"id": 20, "n": "b"}, {"id": 99, "n": "c"}, {"n": "d"}]);
    let cond = |i: usize| match i % 4 {
        0 => format!("@.id == {}", i),
        1 => format!("@.n != 'x{}'", i),
        2 => format!("{} > @.id", i),
        _ => "@.id".to_string(),
    };
    let shapes: [(&str, fn(usize, &dyn Fn(usize) -> String) -> String); 7] = [
        ("left-nested-or", |n, c| (1..=n).fold(c(0), |acc, i| format!("({} || {})", acc, c(i)))),
        ("right-nested-or", |n, c| (1..=n).fold(c(0), |acc, i| format!("({} || {})", c(i), acc))),
        ("left-nested-and", |n, c| (1..=n).fold(c(3), |acc, i| format!("({} && {})", acc, c(4 * i + 1)))),
        ("right-nested-and", |n, c| (1..=n).fold(c(3), |acc, i| format!("({} && {})", c(4 * i + 1), acc))),
        ("alternating", |n, c| (1..=n).fold(c(0), |acc, i| if i % 2 == 0 { format!("({} || {})", acc, c(i)) } else { format!("({} && {})", c(i), acc) })),
        ("negated-levels", |n, c| (1..=n).fold(c(0), |acc, i| format!("!({} || {})", acc, c(i)))),
        ("both-sides-grouped", |n, c| (1..=n).fold(c(0), |acc, i| format!("({} || ({} && {}))", acc, c(i), c(i + 1)))),
    ];
    let mut depths: Vec<usize> = (1..=if thorough { 128 } else { 64 }).collect();
    depths.extend([160usize, 200, 256]);
    let mut count = 0usize;
    for (name, mk) in shapes {
        for &n in &depths {
            let q = format!("$[?{}]", mk(n, &cond));
            obs.nontrivial(&(name, n), || json!({"shape": name, "depth": n, "query(depth 3)": format!("$[?{}]", mk(3, &cond))}));
            match all_entry_points(&q, &doc, obs)? {
                Out::Ok => {}
                Out::Err => return Err(Failure::new(format!("a valid filter of {} nested groups ({}) is refused", n, name), json!({"query": q, "doc": doc}))),
            }
            count += 1;
        }
    }
    obs.boxes.push(json!({"box": "parenthesised binary trees of conditions with && / || at every level, every depth of the range, through all entry points", "shapes": shapes.iter().map(|s| s.0).collect::<Vec<_>>(),
                          "depths": format!("1..={} and 160, 200, 256", if thorough { 128 } else { 64 }), "queries": count, "exhaustive": true}));
    Ok(())
}

/// comparisons of two equal (and of two almost equal) containers nested 1-128 deep: deep equality must walk
/// each pair of members once - work that doubles per level never returns for a template 30 levels deep
fn box_deep_equality(obs: &mut Obs, thorough: bool) -> Res {
    fn nest(shape: usize, d: usize, leaf: Value) -> Value {
        let mut v = leaf;
        for i in 0..d {
            v = match shape {
                0 => json!({ "k": v }),
                1 => json!({ "k": v, "n": i }),
                2 => json!([v]),
                3 => json!([i, v, "s"]),
                _ => {
                    if i % 2 == 0 {
                        json!({ "k": v, "m": [i] })
                    } else {
                        json!([{ "z": i }, v])
                    }
                }
            };
        }
        v
    }
    let mut depths: Vec<usize> = (1..=if thorough { 128 } else { 64 }).collect();
    if !thorough {
        depths.extend([100usize, 128]);
    }
    let queries = ["$[?@.a == @.b]", "$[?@.a != @.b]", "$[?@.a <= @.b]", "$[?@.b >= @.a]", "$[?@.a == $[0].b]", "$[?@.a < @.b]", "$[?@.a == @.b && @.b == @.a]"];
    let mut count = 0usize;
    for shape in 0..5usize {
        for &d in &depths {
            // row 0: equal; row 1: different at the innermost leaf only
            let doc = json!([{"a": nest(shape, d, json!(1)), "b": nest(shape, d, json!(1))}, {"a": nest(shape, d, json!(1)), "b": nest(shape, d, json!(2))}]);
            obs.nontrivial(&("deep-eq", shape, d), || json!({"shape": shape, "depth": d, "row(depth 2)": json!({"a": nest(shape, 2, json!(1)), "b": nest(shape, 2, json!(1))})}));
            for q in queries {
                match all_entry_points(q, &doc, obs)? {
                    Out::Ok => {}
                    Out::Err => return Err(Failure::new("a valid comparison of two containers is refused", json!({"query": q, "depth": d, "shape": shape}))),
                }
                count += 1;
            }
            // deep values recurse in drop as well; 128 levels are harmless
        }
    }
    obs.boxes.push(json!({"box": "comparisons of equal / almost equal containers nested 1..128 deep (objects, objects with siblings, arrays, arrays with siblings, mixed) through all entry points", "queries": count, "exhaustive": true}));
    Ok(())
}

/// patterns and subjects that come from the DOCUMENT, drawn from strings no query literal could spell without
/// escapes: metacharacters anywhere, a lone backslash at the end (`C:\data\`), unbalanced brackets, empty strings
fn random_regex_from_document(src: &mut Src, obs: &mut Obs) -> Res {
    let chars = ['a', 'b', '\\', '\\', '(', ')', '[', ']', '{', '}', '*', '+', '?', '|', '^', '$', '.', '-', ',', '0', '1', '2', 'p', 'L', '\'', '"', ' ', '\n', '\u{e9}'];
    let mut hostile = |src: &mut Src| -> String {
        if src.chance(1, 6) {
            return src.pick(&["C:\\data\\", "\\", "a\\", "\\\\", "[\\", "(\\", "\\p", "\\p{", "\\p{L", "a{", "a{1", "a{1,", "a{,1}", "[a-", "[^", "(?", "(?:", "(?i)a", "\\1", "\\b", "\\d+", "$^", "a**", "a{999999999}", "\\u{41}", "\\x41", "[[:alpha:]]"]).to_string();
        }
        let n = src.below(7);
        (0..n).map(|_| *src.pick(&chars)).collect()
    };
    let p = hostile(src);
    let n = 1 + src.below(4);
    let l: Vec<Value> = (0..n).map(|_| if src.chance(1, 5) { json!(src.below(3)) } else { json!(hostile(src)) }).collect();
    let doc = json!({"p": p, "l": l, "o": {"p": hostile(src)}});
    let q = *src.pick(&[
        "$.l[?match(@, $.p)]", "$.l[?search(@, $.p)]", "$.l[?match($.p, @)]", "$.l[?search($.p, @)]", "$..[?search(@, @)]", "$..[?match(@, @)]", "$.l[?!search(@, $.o.p)]",
        "$[?match(@.p, @.p)]", "$.l[?search(@, $.p) || match(@, $.o.p)]", "$.l[?length(@) > 1 && search(@, $.p)]",
    ]);
    obs.label("regex-from-document");
    obs.nontrivial(&(q, doc.to_string()), || json!({"query": q, "doc": doc}));
    match all_entry_points(q, &doc, obs)? {
        Out::Ok => Ok(()),
        Out::Err => Err(Failure::new("a valid query with match/search is refused", json!({"query": q, "doc": doc}))),
    }
}

fn direct(case: &Value, obs: &mut Obs) -> Res {
    let q = case["query"].as_str().unwrap_or("");
    all_entry_points(q, &case["doc"], obs).map(|_| ())
}

pub fn prop() -> Prop {
    Prop {
        id: ID,
        rule: "valid sentences, 1-3-edit near misses, token soup and arbitrary Unicode strings, extreme integers in every integer position (as text, also beyond i64, and as programmatic ASTs within the I-JSON range on arrays of length 0-3 and 200), \
               document-guided queries with filters/functions/regex, on scalar, empty, nested and wide documents; every case runs parse_json_path, query, query_with_path, query_only_path, js_path_process, reference and reference_mut (overflow checks on); \
               scaling probes in child processes: nesting 8..65536 of ( , !( , [?@ , f( ; long chains; documents of depth 8..4096; regular expressions of every nesting depth 1..300 and of extreme repetition counts / alternatives / class sizes. Oracle: every call returns Ok or Err (no panic, abort, PEG call budget overrun, 40 s watchdog), Ok/Err agree across entry points, and a parsed query never evaluates to Err. \
               Non-trivial: an integer with >= 10 digits, nesting >= 8, a near miss / arbitrary string, a scalar or empty document, or a probe. Distinct by (query text, document size).",
        assumptions: vec![
            "the library is built with overflow-checks and debug-assertions on, so arithmetic overflow is a panic",
            "bulk cases run on 64 MiB thread stacks with nesting <= 40; stack exhaustion is judged by the probes, which run on an 8 MiB stack in their own process",
            "absence of hangs is not established: a PEG call budget (1000 calls per input character, fixed 10^6 for bulk inputs) and a 40 s watchdog per library call stand in for it",
        ],
        subs: vec![
            Sub { name: "probes", kind: Kind::Exhaustive(probes) },
            Sub { name: "box-targeted-invalid", kind: Kind::Exhaustive(box_targeted_invalid) },
            Sub { name: "box-regex-sizes", kind: Kind::Exhaustive(box_regex_sizes) },
            Sub { name: "box-logical-nesting", kind: Kind::Exhaustive(box_logical_nesting) },
            Sub { name: "box-deep-equality", kind: Kind::Exhaustive(box_deep_equality) },
            Sub { name: "random-valid", kind: Kind::Random { f: random_valid, quick: 30_000, thorough: 1_600_000, len: 600 } },
            Sub { name: "random-near-miss", kind: Kind::Random { f: random_near_miss, quick: 160_000, thorough: 3_200_000, len: 600 } },
            Sub { name: "random-extreme-text", kind: Kind::Random { f: random_extreme_text, quick: 80_000, thorough: 1_600_000, len: 64 } },
            Sub { name: "random-programmatic", kind: Kind::Random { f: random_programmatic, quick: 80_000, thorough: 1_600_000, len: 64 } },
            Sub { name: "random-regex-from-document", kind: Kind::Random { f: random_regex_from_document, quick: 60_000, thorough: 1_200_000, len: 120 } },
            Sub { name: "random-eval", kind: Kind::Random { f: random_eval, quick: 200_000, thorough: 4_000_000, len: 500 } },
        ],
        direct: Some(direct),
        selftest: None,
        fuzz: Some(FuzzSpec { target: "nopanic", runs: 100000, max_len: 1000, tag: "C08", seed_corpus: Some("nopanic") }),
        insertion_order_stage: false,
    }
}
