//! C03 — each reported path is the Normalized Path of the reported node; paths are injective;
//! a reported path queries back to exactly that node

use crate::ast::*;
use crate::engine::*;
use crate::gen::*;
use crate::json::*;
use crate::libx::{self, LibErr};
use crate::oracle::{self, Quirks};
use crate::props::c01::{case_json, labels, parse_direct};
use crate::recog;
use crate::src::Src;
use serde_json::{json, Value};
use std::collections::HashMap;

pub const ID: &str = "C03";

fn pairs(q: &Query, doc: &J, k: &Quirks) -> Vec<(Loc, String)> {
    let mut v: Vec<(Loc, String)> = oracle::eval(q, doc, k).iter().map(|n| (n.loc(), n.path(k))).collect();
    v.sort();
    v
}

fn plain_name(s: &str) -> bool {
    !s.is_empty() && s.chars().all(|c| c.is_ascii_alphanumeric() || c == '_')
}

fn route_is_plain(q: &Query) -> bool {
    q.segs.iter().all(|s| !s.desc && s.sels.len() == 1 && match &s.sels[0] {
        Sel::Name(n) => !n.has_escape() && n.quote == Quote::S,
        Sel::Index(i) => *i >= 0,
        _ => false,
    })
}

pub fn check(q: &Query, text: &str, doc: &J, obs: &mut Obs) -> Res {
    let v = doc.to_value();
    let map = node_map(&v);
    let case = || case_json(text, doc);
    obs.eval(1);
    labels(q, obs);
    let nodes = match libx::query_with_path(&v, &map, text) {
        Ok(n) => n,
        Err(LibErr::Err(e)) => return Err(Failure::new(format!("valid query rejected: {}", e), case())),
        Err(LibErr::Panic(p)) => return Err(Failure::new(format!("panic: {}", p), case())),
    };
    // (1) path == normalized path of the location found by pointer identity
    let mut got: Vec<(Loc, String)> = vec![];
    for n in &nodes {
        match &n.loc {
            Some(l) => got.push((l.clone(), n.path.clone())),
            None => return Err(Failure::new("returned value is not a node of the document", case())),
        }
    }
    got.sort();
    let strict_paths_ok = got.iter().all(|(l, p)| *p == normalized_path(l));
    let plain_route = route_is_plain(q);
    for (l, _) in &got {
        let nontrivial = !l.is_empty()
            && (!plain_route || l.iter().any(|s| matches!(s, Step::Key(k) if !plain_name(k))));
        if nontrivial {
            obs.nontrivial(&(text, doc.text(), normalized_path(l)), || json!({"query": text, "doc": doc.to_value(), "node": normalized_path(l)}));
        }
    }
    let mut path_known = false;
    match attribute(ID, &got, |k| pairs(q, doc, k)) {
        Attribution::Strict => {}
        Attribution::Known(bits) => {
            path_known = true;
            for id in finding_ids_for_bits(ID, bits) {
                obs.known(&id, || case());
            }
        }
        Attribution::Unexplained => {
            // separate "wrong nodes" (C01's business, but it breaks the pairing) from "wrong path"
            let mut c = case();
            c["library(location_by_identity,path)"] = json!(got.iter().map(|(l, p)| json!([normalized_path(l), p])).collect::<Vec<_>>());
            c["expected"] = json!(pairs(q, doc, &Quirks::strict()).iter().map(|(l, p)| json!([normalized_path(l), p])).collect::<Vec<_>>());
            let msg = if strict_paths_ok {
                "the set of (node, path) results differs from the RFC nodelist (every path is the normalized path of its node)"
            } else {
                "a reported path is not the Normalized Path (RFC 9535 2.7) of the node it was reported for"
            };
            return Err(Failure::new(msg, c));
        }
    }
    // (2) two results have the same path exactly when they are the same node
    if !path_known {
        let mut by_path: HashMap<&str, &Loc> = HashMap::new();
        for (l, p) in &got {
            if let Some(l0) = by_path.insert(p.as_str(), l) {
                if l0 != l {
                    let mut c = case();
                    c["path"] = json!(p);
                    c["nodes"] = json!([normalized_path(l0), normalized_path(l)]);
                    return Err(Failure::new("two different nodes were reported with the same path", c));
                }
            }
        }
    }
    // (3) a reported path, run as a query, returns exactly that node with that path
    if !path_known {
        let mut done: Vec<&str> = vec![];
        for (l, p) in &got {
            if done.contains(&p.as_str()) {
                continue;
            }
            // bounded work per case: the first 60 distinct paths are queried back
            if done.len() >= 60 {
                break;
            }
            done.push(p.as_str());
            round_trip(&v, &map, doc, l, p, obs, &case)?;
        }
    }
    Ok(())
}

fn round_trip(v: &Value, map: &HashMap<usize, Loc>, doc: &J, l: &Loc, p: &str, obs: &mut Obs, case: &dyn Fn() -> Value) -> Res {
    obs.eval(1);
    let back = match libx::query_with_path(v, map, p) {
        Ok(n) => n,
        Err(e) => {
            let mut c = case();
            c["reported_path"] = json!(p);
            return Err(Failure::new(format!("a reported path is not accepted as a query: {:?}", e), c));
        }
    };
    let got: Vec<Option<Loc>> = back.iter().map(|n| n.loc.clone()).collect();
    let pq = match recog::parse_ast(p) {
        Some(q) => q,
        None => {
            let mut c = case();
            c["reported_path"] = json!(p);
            return Err(Failure::new("a reported path is not a well-formed query", c));
        }
    };
    let exp = |k: &Quirks| -> Vec<Option<Loc>> { oracle::eval(&pq, doc, k).iter().map(|n| Some(n.loc())).collect() };
    debug_assert!(exp(&Quirks::strict()) == vec![Some(l.clone())]);
    match attribute(ID, &got, exp) {
        Attribution::Strict => {
            if back.len() == 1 && back[0].path != p {
                let mut c = case();
                c["reported_path"] = json!(p);
                c["path_after_round_trip"] = json!(back[0].path);
                return Err(Failure::new("querying a reported path returns the node with a different path", c));
            }
            Ok(())
        }
        Attribution::Known(bits) => {
            for id in finding_ids_for_bits(ID, bits) {
                obs.known(&id, || case());
            }
            Ok(())
        }
        Attribution::Unexplained => {
            let mut c = case();
            c["reported_path"] = json!(p);
            c["node"] = json!(normalized_path(l));
            c["round_trip_result"] = json!(back.iter().map(|n| n.path.clone()).collect::<Vec<_>>());
            Err(Failure::new("querying a reported path does not return exactly the node it was reported for", c))
        }
    }
}

/// `$..*` reports every node but the root: all paths normalized, pairwise distinct, and round-trip
fn all_nodes(doc: &J, obs: &mut Obs) -> Res {
    let q = Query { abs: true, segs: vec![Seg { desc: true, sels: vec![Sel::Wild], dot: true }] };
    check(&q, "$..*", doc, obs)
}

fn cfg_paths() -> GenCfg {
    let mut cfg = GenCfg::plain();
    cfg.special_keys = true;
    cfg
}

fn random_routes(src: &mut Src, obs: &mut Obs) -> Res {
    let mut cfg = cfg_paths();
    // selector spellings: half of the cases single-quoted/minimal (strict region), half free
    cfg.free_escapes = src.bool();
    // which nodes a filter keeps decides which paths are reported: regular-expression tests take part as in C01
    cfg.regex = src.bool();
    let doc = gen_doc(src, &cfg).sorted();
    let q = gen_query(src, &doc, &cfg);
    let blanks = src.chance(1, 4);
    let text = render_with_blanks(src, &q, blanks);
    check(&q, &text, &doc, obs)
}

/// lists of records with optional members under a filter that consists of one test (the commonest query of
/// all): the kept elements are scattered over the list, so a path whose index counts anything but the
/// position in the array - the position among the candidates, among the hits - is wrong
fn random_record_filters(src: &mut Src, obs: &mut Obs) -> Res {
    let span = if src.chance(1, 8) { 40 } else { 9 };
    let n = 2 + src.below(span);
    let strings = ["ab", "abc", "b", "xab", "", "a b", "ab@example.com"];
    let rows: Vec<J> = (0..n)
        .map(|i| {
            if src.chance(1, 6) {
                // not a record at all
                return src.pick(&[J::Null, J::Bool(false), J::Int(i as i64), J::Str("ab".into()), J::Arr(vec![J::Str("ab".into())]), J::Obj(vec![])]).clone();
            }
            let mut m: Vec<(String, J)> = vec![];
            match src.below(6) {
                0 => {}
                1 => m.push(("n".into(), J::Null)),
                2 => m.push(("n".into(), J::Int(7))),
                _ => m.push(("n".into(), J::Str(src.pick(&strings).to_string()))),
            }
            if src.bool() {
                m.push(("k".into(), J::Int(src.range(0, 4))));
            }
            J::Obj(m)
        })
        .collect();
    let under_name = src.bool();
    let doc = if under_name { J::Obj(vec![("l".to_string(), J::Arr(rows))]) } else { J::Arr(rows) };
    let test = *src.pick(&[
        "match(@.n, 'ab.*')", "search(@.n, 'ab')", "search(@.n, 'b')", "match(@.n, '.*b')", "search(@.n,'example')", "!search(@.n, 'ab')", "search(@.n, 'ab') && @.k", "@.n == 'ab'", "@.n", "!@.n", "@.k > 1",
        "length(@.n) >= 2", "count(@.*) == 2", "@.n != null", "search(@['n'], \"a\")", "match(@.n, @.n)", "@.k == 1 || @.n == 7",
    ]);
    let head = if under_name { *src.pick(&["$.l", "$['l']", "$..l", "$.*"]) } else { *src.pick(&["$", "$", "$.."]) };
    let text = format!("{}[?{}]{}", head, test, *src.pick(&["", "", "", ".n", "['k']", "[?@ == 1]"]));
    let q = match crate::recog::parse_ast(&text) {
        Some(q) => q,
        None => return Err(Failure::new("harness inconsistency: the record-filter family produced a query outside the recogniser's language", json!({"query": text}))),
    };
    obs.label("record-filter");
    check(&q, &text, &doc, obs)
}

fn random_all_nodes(src: &mut Src, obs: &mut Obs) -> Res {
    let cfg = cfg_paths();
    let doc = gen_doc(src, &cfg).sorted();
    obs.label("all-nodes($..*)");
    all_nodes(&doc, obs)
}

/// paths of wide arrays whose indices are touched for the first time by 16 threads at once
fn parallel_first_touch(obs: &mut Obs, thorough: bool) -> Res {
    use jsonpath_rust::JsonPath;
    let rounds = if thorough { 200 } else { 60 };
    let mut width = 33usize;
    for round in 0..rounds {
        width += 17 + (round % 5) * 8;
        let wide = Value::Array((0..width).map(|i| json!(i)).collect());
        let expected: Vec<String> = (0..width).map(|i| format!("$[{}]", i)).collect();
        let q = ["$[*]", "$[::1]", "$[?@ >= 0]", "$..[*]"][round % 4];
        let barrier = std::sync::Barrier::new(16);
        let bad: std::sync::Mutex<Option<Value>> = std::sync::Mutex::new(None);
        std::thread::scope(|sc| {
            for _ in 0..16 {
                let (wide, expected, barrier, bad) = (&wide, &expected, &barrier, &bad);
                sc.spawn(move || {
                    barrier.wait();
                    let r = guarded(|| wide.query_only_path(q));
                    let ok = matches!(&r, Ok(Ok(p)) if p == expected);
                    if !ok {
                        let mut b = bad.lock().unwrap();
                        if b.is_none() {
                            let diff = match r {
                                Ok(Ok(p)) => json!(p.iter().zip(expected.iter()).enumerate().find(|(_, (a, b))| a != b).map(|(i, (a, b))| json!({"position": i, "reported": a, "expected": b}))),
                                Ok(Err(e)) => json!(e.to_string()),
                                Err(p) => json!(p),
                            };
                            *b = Some(json!({"query": q, "doc": format!("[0, 1, ... {}]", expected.len() - 1), "first_difference": diff}));
                        }
                    }
                });
            }
        });
        obs.eval(16);
        obs.nontrivial(&(q, width), || json!({"query": q, "array_width": width, "threads": 16}));
        if let Some(b) = bad.into_inner().unwrap() {
            return Err(Failure::new("a reported path is not the location of its node when several threads evaluate queries over wide arrays at the same time", b));
        }
    }
    obs.boxes.push(json!({"box": "wide arrays (widths growing from 50) queried by 16 threads at once, each width touched for the first time in the process", "rounds": rounds, "exhaustive": false}));
    Ok(())
}

/// long lists of records under everyday queries (see `gen::gen_long_records`)
fn random_long_record_lists(src: &mut Src, obs: &mut Obs) -> Res {
    // (every selected node is queried back: lists of up to 300 records here, the longer ones in C01 / C02)
    let (doc, text) = gen_long_records_capped(src, 300);
    let q = match crate::recog::parse_ast(&text) {
        Some(q) => q,
        None => return Err(Failure::new("harness inconsistency: the long-list family produced a query outside the recogniser's language", json!({"query": text}))),
    };
    obs.label("long-record-list");
    check(&q, &text, &doc, obs)
}

fn direct(case: &Value, obs: &mut Obs) -> Res {
    let (q, text, doc) = parse_direct(case)?;
    check(&q, &text, &doc, obs)
}

pub fn prop() -> Prop {
    Prop {
        id: ID,
        rule: "random documents whose member names include quotes, backslashes, control characters, `/`, `~`, empty and non-ASCII names; queries reaching nodes by every route \
               (negative index, slice, wildcard, descendant, filter, shorthand, both quote styles, escapes); plus `$..*` over every generated document. \
               Non-trivial: a reported node below the root whose route is not a chain of plain single-quoted names / non-negative indices, or whose location has a non-plain name. \
               Distinct by (query text, document, node).",
        assumptions: vec![
            "normalized_path() in harness/src/json.rs transcribes RFC 9535 2.7 (self-tested)",
            "the location of a result is found by pointer identity in the caller's document, independently of the path string",
        ],
        subs: vec![
            // the wide flat arrays and objects of C01's box: locations by address, paths literally
            // first of all: its arrays must be wider than anything the process has evaluated before
            Sub { name: "parallel-first-touch", kind: Kind::Exhaustive(parallel_first_touch) },
            Sub { name: "large-flat-paths", kind: Kind::Exhaustive(crate::props::c01::large_flat) },
            Sub { name: "random-routes", kind: Kind::Random { f: random_routes, quick: 200_000, thorough: 4_000_000, len: 400 } },
            Sub { name: "random-long-record-lists", kind: Kind::Random { f: random_long_record_lists, quick: 800, thorough: 16_000, len: 3000 } },
            Sub { name: "random-record-filters", kind: Kind::Random { f: random_record_filters, quick: 60_000, thorough: 1_200_000, len: 200 } },
            Sub { name: "random-all-nodes", kind: Kind::Random { f: random_all_nodes, quick: 50_000, thorough: 1_000_000, len: 300 } },
        ],
        direct: Some(direct),
        selftest: Some(crate::rfc::selftest),
        fuzz: Some(FuzzSpec { target: "evaldiff", runs: 10000, max_len: 1000, tag: "C03", seed_corpus: None }),
        insertion_order_stage: true,
    }
}
