//! C11 — index and slice arithmetic is exact for all bounds and lengths

use crate::ast::*;
use crate::engine::*;
use crate::json::*;
use crate::libx::{self, LibErr};
use crate::oracle::{self, Quirks};
use crate::src::Src;
use serde_json::{json, Value};

pub const ID: &str = "C11";

fn arr(len: usize) -> J {
    J::Arr((0..len as i64).map(J::Int).collect())
}

fn one_seg(sel: Sel) -> Query {
    Query {
        abs: true,
        segs: vec![Seg {
            desc: false,
            sels: vec![sel],
            dot: false,
        }],
    }
}

fn nontrivial_sel(sel: &Sel, len: usize) -> bool {
    let l = len as i64;
    let odd = |x: &Option<i64>| x.map_or(true, |v| v < 0 || v > l - 1);
    match sel {
        Sel::Index(i) => *i < 0 || *i >= l,
        Sel::Slice(a, b, c, _) => odd(a) || odd(b) || c.map_or(false, |s| s != 1),
        _ => false,
    }
}

/// evaluate `q` (text and programmatic) on `doc`, compare the ordered location sequence
fn check_q(q: &Query, doc: &J, obs: &mut Obs, nontrivial: bool) -> Res {
    check_q_text(q, render_plain(q), doc, obs, nontrivial)
}

/// `text`: a spelling of `q` (optional blank space at the places the grammar allows it)
fn check_q_text(q: &Query, text: String, doc: &J, obs: &mut Obs, nontrivial: bool) -> Res {
    let v = doc.to_value();
    let map = node_map(&v);
    check_q_on(q, text, doc, &v, &map, obs, nontrivial)
}

/// the same on a document whose `Value` and node map were built once (long arrays)
fn check_q_on(q: &Query, text: String, doc: &J, v: &Value, map: &std::collections::HashMap<usize, Loc>, obs: &mut Obs, nontrivial: bool) -> Res {
    let exp: Vec<Loc> = oracle::eval(q, doc, &Quirks::strict()).iter().map(|n| n.loc()).collect();
    if nontrivial {
        obs.nontrivial(&(text.as_str(), doc.text()), || {
            json!({"query": text, "doc": doc.to_value(), "selected": exp.iter().map(|l| normalized_path(l)).collect::<Vec<_>>()})
        });
    }
    for (what, r) in [
        ("query_with_path", libx::query_with_path(v, map, &text)),
        ("js_path_process(programmatic AST)", libx::process(v, map, &libx::to_lib(q))),
    ] {
        obs.eval(1);
        let case = || json!({"query": text, "doc": doc.to_value()});
        match r {
            Ok(nodes) => {
                let got: Vec<Option<Loc>> = nodes.iter().map(|n| n.loc.clone()).collect();
                let e: Vec<Option<Loc>> = exp.iter().cloned().map(Some).collect();
                if got != e {
                    let mut c = case();
                    c["expected"] = json!(exp.iter().map(|l| normalized_path(l)).collect::<Vec<_>>());
                    c["library"] = json!(nodes.iter().map(|n| n.path.clone()).collect::<Vec<_>>());
                    return Err(Failure::new(format!("{}: selected index sequence differs from RFC 9535 2.3.3/2.3.4", what), c));
                }
                // the reported path of an element is `$...[i]` with the normalised index
                for (n, l) in nodes.iter().zip(&exp) {
                    if n.path != normalized_path(l) {
                        let mut c = case();
                        c["expected_path"] = json!(normalized_path(l));
                        c["library_path"] = json!(n.path);
                        return Err(Failure::new(format!("{}: path of a selected element is not its normalised location", what), c));
                    }
                }
            }
            Err(LibErr::Err(e)) => return Err(Failure::new(format!("{}: valid query failed: {}", what, e), case())),
            Err(LibErr::Panic(p)) => return Err(Failure::new(format!("{}: panic: {}", what, p), case())),
        }
    }
    Ok(())
}

fn opt_range(lo: i64, hi: i64) -> Vec<Option<i64>> {
    let mut v = vec![None];
    v.extend((lo..=hi).map(Some));
    v
}

fn box_small(obs: &mut Obs, thorough: bool) -> Res {
    let (maxlen, b, st) = if thorough { (12usize, 14i64, 5i64) } else { (8, 10, 4) };
    let bounds = opt_range(-b, b);
    let steps = opt_range(-st, st);
    let mut n = 0u64;
    for len in 0..=maxlen {
        let doc = arr(len);
        for s in &bounds {
            for e in &bounds {
                for step in &steps {
                    let sel = Sel::Slice(*s, *e, *step, false);
                    let nt = nontrivial_sel(&sel, len);
                    check_q(&one_seg(sel), &doc, obs, nt)?;
                    n += 1;
                }
            }
        }
        for i in -(b + 1)..=(b + 1) {
            let sel = Sel::Index(i);
            let nt = nontrivial_sel(&sel, len);
            check_q(&one_seg(sel), &doc, obs, nt)?;
            n += 1;
        }
        // several index / slice selectors in one bracketed selection (one input node): each contributes its
        // own sequence, selections that are empty for every part included (`[::0, 1:3:0]` selects nothing)
        let parts = [
            Sel::Slice(None, None, Some(0), false),
            Sel::Slice(Some(1), Some(3), Some(0), false),
            Sel::Slice(Some(-3), Some(7), Some(0), false),
            Sel::Slice(Some(len as i64), None, None, false),
            Sel::Slice(None, None, Some(-1), false),
            Sel::Slice(Some(1), None, Some(2), false),
            Sel::Index(len as i64),
            Sel::Index(-(len as i64) - 1),
            Sel::Index(0),
            Sel::Index(-1),
        ];
        for a in &parts {
            for b2 in &parts {
                let q = Query { abs: true, segs: vec![Seg { desc: false, sels: vec![a.clone(), b2.clone()], dot: false }] };
                check_q(&q, &doc, obs, true)?;
                n += 1;
            }
        }
        let q = Query { abs: true, segs: vec![Seg { desc: false, sels: vec![parts[0].clone(), parts[1].clone(), parts[2].clone()], dot: false }] };
        check_q(&q, &doc, obs, true)?;
        n += 1;
    }
    obs.boxes.push(json!({"box": "slices and indices on arrays", "lengths": format!("0..={}", maxlen), "start,end": format!("absent or -{}..={}", b, b),
        "step": format!("absent or -{}..={}", st, st), "index": format!("-{}..={}", b + 1, b + 1), "queries": n, "exhaustive": true}));
    Ok(())
}

fn boundary_values(len: i64) -> Vec<i64> {
    let mut v = vec![0, 1, -1, len, -len, len + 1, -len - 1, len - 1, -len + 1, MAX_SAFE, -MAX_SAFE, MAX_SAFE - 1, -MAX_SAFE + 1, 1 << 31, -(1 << 31), (1 << 31) - 1, (1 << 32) + 1, -(1i64 << 32) - 1, (1i64 << 52)];
    v.sort();
    v.dedup();
    v
}

fn box_boundary(obs: &mut Obs, _thorough: bool) -> Res {
    let mut n = 0u64;
    for len in [0usize, 1, 2, 3, 5] {
        let doc = arr(len);
        let vals = boundary_values(len as i64);
        let mut opts: Vec<Option<i64>> = vec![None];
        opts.extend(vals.iter().map(|x| Some(*x)));
        for s in &opts {
            for e in &opts {
                for step in &opts {
                    // enormous |step| is fine; step values near +-1 are covered by the small box
                    check_q(&one_seg(Sel::Slice(*s, *e, *step, false)), &doc, obs, true)?;
                    n += 1;
                }
            }
        }
        for i in &vals {
            check_q(&one_seg(Sel::Index(*i)), &doc, obs, true)?;
            n += 1;
        }
    }
    obs.boxes.push(json!({"box": "boundary values in every position", "values": "0, +-1, +-len, +-(len+-1), +-(2^53-1), +-(2^53-2), +-2^31, 2^31-1, +-(2^32+1), 2^52, absent", "lengths": [0, 1, 2, 3, 5], "queries": n, "exhaustive": true}));
    Ok(())
}

/// long arrays (beyond 2^5, 2^8, 2^10, 2^12, 2^16 elements) under extreme and ordinary bounds and steps:
/// the products and sums an implementation forms from a clamped bound, the length and the step grow with
/// the length of the array
fn box_long(obs: &mut Obs, thorough: bool) -> Res {
    let mut n = 0u64;
    let lens: Vec<usize> = if thorough { vec![33, 257, 1025, 4097, 65537, 300_000] } else { vec![33, 257, 1025, 4097, 65537] };
    for len in lens {
        let doc = arr(len);
        let v = doc.to_value();
        let map = node_map(&v);
        let l = len as i64;
        let big = len > 5000;
        let mut bounds: Vec<Option<i64>> = vec![None, Some(0), Some(10), Some(-10), Some(l), Some(-l), Some(l - 1), Some(MAX_SAFE), Some(-MAX_SAFE)];
        if !big {
            bounds.extend([Some(l / 2), Some(-l - 1), Some(1 << 31)]);
        }
        let mut steps: Vec<Option<i64>> = vec![
            Some(MAX_SAFE), Some(-MAX_SAFE), Some(1 << 52), Some(-(1 << 52)), Some(1 << 51), Some(-(1 << 50)), Some((1 << 32) + 1), Some(-(1i64 << 32) - 1), Some(1 << 31), Some(-(1 << 31)),
            Some(l), Some(-l), Some(l - 1), Some(l + 1), Some(1000), Some(-1000), Some(0),
        ];
        if !big {
            steps.extend([None, Some(-1), Some(2), Some(-3)]);
        } else {
            steps.extend([Some(997), Some(-4096)]);
        }
        for s in &bounds {
            for e in &bounds {
                for step in &steps {
                    let q = one_seg(Sel::Slice(*s, *e, *step, false));
                    check_q_on(&q, render_plain(&q), &doc, &v, &map, obs, false)?;
                    n += 1;
                }
            }
        }
        obs.nontrivial(&("long", len), || json!({"array length": len, "bounds": bounds, "steps": steps}));
        // a few full walks of the long array
        for step in [None, Some(-1), Some(2)] {
            let q = one_seg(Sel::Slice(None, None, step, false));
            check_q_on(&q, render_plain(&q), &doc, &v, &map, obs, false)?;
            n += 1;
        }
        // the same slice below a name and inside a filter
        let holder = J::Obj(vec![("l".to_string(), doc.clone())]);
        for text in ["$.l[::9007199254740991]", "$.l[10::-9007199254740991]", "$[?@[::4503599627370496]]", "$..[::-9007199254740991]"] {
            if let Some(q) = crate::recog::parse_ast(text) {
                check_q_text(&q, text.to_string(), &holder, obs, false)?;
                n += 1;
            }
        }
    }
    obs.boxes.push(json!({"box": "long arrays under extreme bounds and steps", "lengths": "33, 257, 1025, 4097, 65537 (thorough: and 300000)", "queries": n, "exhaustive": true}));
    Ok(())
}

fn box_non_arrays(obs: &mut Obs, _thorough: bool) -> Res {
    let targets = vec![
        J::Obj(vec![("0".into(), J::Int(1)), ("1".into(), J::Int(2)), ("a".into(), J::Int(3))]),
        J::Obj(vec![]),
        J::Str("abcdef".into()),
        J::Str("".into()),
        J::Int(5),
        J::Float(1.5),
        J::Null,
        J::Bool(true),
    ];
    let mut n = 0;
    let opts = opt_range(-3, 3);
    for t in &targets {
        // at the root and one level down
        for doc in [t.clone(), J::Arr(vec![t.clone()]), J::Obj(vec![("k".into(), t.clone())])] {
            for s in &opts {
                for e in &opts {
                    for step in [None, Some(1), Some(-1), Some(2), Some(0)] {
                        let sel = Sel::Slice(*s, *e, step, false);
                        for q in [
                            one_seg(sel.clone()),
                            Query { abs: true, segs: vec![Seg { desc: false, sels: vec![Sel::Wild], dot: false }, Seg { desc: false, sels: vec![sel.clone()], dot: false }] },
                            Query { abs: true, segs: vec![Seg { desc: true, sels: vec![sel.clone()], dot: false }] },
                        ] {
                            check_q(&q, &doc, obs, true)?;
                            n += 1;
                        }
                    }
                }
            }
            for i in -3..=3 {
                check_q(&one_seg(Sel::Index(i)), &doc, obs, true)?;
                n += 1;
            }
        }
    }
    obs.boxes.push(json!({"box": "slices and indices applied to non-arrays (object, string, number, null, boolean), at the root, below [*] and below ..", "queries": n, "exhaustive": true}));
    Ok(())
}

/// per-node application: the same selector below `[*]` / `..` over arrays of different lengths,
/// larger arrays, random bounds
fn random_nested(src: &mut Src, obs: &mut Obs) -> Res {
    let n = 1 + src.below(4);
    let big = src.chance(1, 10);
    let rows: Vec<J> = (0..n)
        .map(|_| {
            let len = if big { src.below(300) } else { src.below(7) };
            J::Arr((0..len as i64).map(|i| if src.chance(1, 8) { J::Arr(vec![J::Int(i)]) } else { J::Int(i) }).collect())
        })
        .collect();
    let maxlen = rows.iter().map(|r| if let J::Arr(a) = r { a.len() } else { 0 }).max().unwrap_or(0) as i64;
    let doc = J::Arr(rows);
    let bound = |src: &mut Src| -> Option<i64> {
        if src.chance(1, 4) {
            None
        } else if src.chance(1, 20) {
            Some(*src.pick(&[MAX_SAFE, -MAX_SAFE, 1 << 31, -(1 << 31)]))
        } else {
            Some(src.range(-maxlen - 3, maxlen + 3))
        }
    };
    let sel = if src.chance(1, 4) {
        Sel::Index(src.range(-maxlen - 2, maxlen + 1))
    } else {
        let s = bound(src);
        let e = bound(src);
        let st = if src.chance(1, 3) { None } else if src.chance(1, 20) { Some(*src.pick(&[MAX_SAFE, -MAX_SAFE])) } else { Some(src.range(-7, 7)) };
        Sel::Slice(s, e, st, src.chance(1, 8))
    };
    let first = match src.below(3) {
        0 => Seg { desc: false, sels: vec![Sel::Wild], dot: src.bool() },
        1 => Seg { desc: false, sels: vec![Sel::Slice(None, None, Some(*src.pick(&[1, -1, 2])), false)], dot: false },
        _ => Seg { desc: true, sels: vec![Sel::Wild], dot: false },
    };
    let desc2 = src.chance(1, 5);
    let sels = if src.chance(1, 6) { vec![sel.clone(), Sel::Index(0)] } else { vec![sel.clone()] };
    // a union over several input nodes would run into the open ordering finding K1 of C02; the last
    // segment here receives several nodes, so keep unions out unless the first segment selects one
    let sels = if sels.len() > 1 { vec![sel.clone()] } else { sels };
    let q = Query { abs: true, segs: vec![first, Seg { desc: desc2, sels, dot: false }] };
    obs.label(if big { "array<=300" } else { "array<=6" });
    if desc2 {
        obs.label("below-descendant");
    }
    // blank space is allowed around every part of a slice and an index (`[ 1 : 5 : 2 ]`)
    if src.chance(1, 3) {
        obs.label("spelled-with-blanks");
        let text = crate::gen::render_with_blanks(src, &q, true);
        return check_q_text(&q, text, &doc, obs, true);
    }
    check_q(&q, &doc, obs, true)
}

/// the same index arithmetic where an index is not a top-level selector: singular queries in
/// comparisons, existence tests, function arguments
fn box_embedded_index(obs: &mut Obs, _thorough: bool) -> Res {
    let mut n = 0;
    for len in 0..=6usize {
        // rows[k] = [k*10, k*10+1, ...] of length `len`; the filter runs over the rows
        let rows: Vec<J> = (0..3).map(|k| J::Arr((0..len as i64).map(|i| J::Int(k * 10 + i)).collect())).collect();
        let doc = J::Obj(vec![("rows".to_string(), J::Arr(rows)), ("flat".to_string(), arr(len))]).sorted();
        for i in -8..=8i64 {
            for text in [
                format!("$.rows[?@[{}] == 1]", i),
                format!("$.rows[?@[{}] >= 10]", i),
                format!("$.rows[?@[{}]]", i),
                format!("$.rows[?!@[{}]]", i),
                format!("$.rows[?$.flat[{}] == @[0]]", i),
                format!("$.rows[?$.flat[{}]]", i),
                format!("$.rows[?length(@[{}]) == 1 || count(@[{}]) == 1]", i, i),
                format!("$.rows[?value(@[{}]) == @[{}]]", i, if i >= 0 { i } else { len as i64 + i }),
                format!("$.rows[?@[{}] == @[{}]]", i, if i >= 0 { i - len as i64 } else { len as i64 + i }),
            ] {
                let q = match crate::recog::parse_ast(&text) {
                    Some(q) => q,
                    None => return Err(Failure::new("harness inconsistency: box query not recognised", json!({"query": text}))),
                };
                check_q(&q, &doc, obs, true)?;
                n += 1;
            }
        }
    }
    obs.boxes.push(json!({"box": "indices -8..8 inside singular queries of comparisons, existence tests and function arguments, rows of length 0..6", "queries": n, "exhaustive": true}));
    Ok(())
}

/// slices as the last segment of a test query, of a count() argument and of a nested filter's query: whether
/// a slice selects anything must be the emptiness of the RFC index sequence, for every sign of the step and
/// every position of the bounds relative to the array (empty arrays included)
fn box_embedded_slice(obs: &mut Obs, thorough: bool) -> Res {
    let mut n = 0;
    let bounds: Vec<Option<i64>> = if thorough { opt_range(-7, 7) } else { vec![None, Some(-7), Some(-5), Some(-3), Some(-2), Some(-1), Some(0), Some(1), Some(2), Some(4), Some(6)] };
    let steps: Vec<Option<i64>> = vec![None, Some(-3), Some(-2), Some(-1), Some(0), Some(1), Some(2)];
    let show = |x: &Option<i64>| x.map(|v| v.to_string()).unwrap_or_default();
    for len in 0..=4usize {
        let rows: Vec<J> = vec![
            J::Obj(vec![("t".to_string(), arr(len))]),
            J::Obj(vec![("t".to_string(), arr(0))]),
            J::Obj(vec![("t".to_string(), J::Str("ab".into()))]),
            J::Obj(vec![]),
            arr(len),
        ];
        let doc = J::Arr(rows);
        for s in &bounds {
            for e in &bounds {
                for st in &steps {
                    let sl = match st {
                        None => format!("{}:{}", show(s), show(e)),
                        Some(_) => format!("{}:{}:{}", show(s), show(e), show(st)),
                    };
                    for text in [format!("$[?@.t[{}]]", sl), format!("$[?!@.t[{}]]", sl), format!("$[?count(@.t[{}]) == 1]", sl), format!("$[?@[{}]]", sl), format!("$[?@.t[{}] || @.zz]", sl)] {
                        let q = match crate::recog::parse_ast(&text) {
                            Some(q) => q,
                            None => return Err(Failure::new("harness inconsistency: box query not recognised", json!({"query": text}))),
                        };
                        check_q(&q, &doc, obs, false)?;
                        n += 1;
                    }
                }
            }
        }
        obs.nontrivial(&("embedded-slice", len), || json!({"rows": doc.to_value(), "shapes": ["$[?@.t[s:e:st]]", "$[?!@.t[s:e:st]]", "$[?count(@.t[s:e:st]) == 1]", "$[?@[s:e:st]]"]}));
    }
    obs.boxes.push(json!({"box": "slices inside test queries, negated tests, count() arguments, on rows whose arrays have length 0..4 (and rows without an array)", "queries": n, "exhaustive": true}));
    Ok(())
}

fn direct(case: &Value, obs: &mut Obs) -> Res {
    let (q, _text, doc) = crate::props::c01::parse_direct(case)?;
    check_q(&q, &doc, obs, true)
}

pub fn prop() -> Prop {
    Prop {
        id: ID,
        rule: "bounded-exhaustive boxes (every slice/index over small arrays, boundary values in every position, non-array targets) plus random nested/large cases; \
               each query runs as text and as a programmatic AST and the ordered index sequence is compared with the RFC 9535 2.3.4.2.2 pseudo-code in 128-bit arithmetic. \
               Non-trivial: some bound is negative, absent, out of range or extreme, or the step is not 1. Distinct by (query text, document).",
        assumptions: vec![
            "slice_indices() in harness/src/oracle.rs transcribes Normalize/Bounds of RFC 9535 2.3.4.2.2 (self-tested on the RFC slice examples)",
            "termination is observed through a 40 s per-call watchdog; evaluations of this size take microseconds",
        ],
        subs: vec![
            Sub { name: "box-small", kind: Kind::Exhaustive(box_small) },
            Sub { name: "box-boundary", kind: Kind::Exhaustive(box_boundary) },
            Sub { name: "box-long", kind: Kind::Exhaustive(box_long) },
            Sub { name: "box-embedded-index", kind: Kind::Exhaustive(box_embedded_index) },
            Sub { name: "box-embedded-slice", kind: Kind::Exhaustive(box_embedded_slice) },
            Sub { name: "box-non-arrays", kind: Kind::Exhaustive(box_non_arrays) },
            Sub { name: "random-nested", kind: Kind::Random { f: random_nested, quick: 200_000, thorough: 4_000_000, len: 400 } },
        ],
        direct: Some(direct),
        selftest: Some(crate::rfc::selftest),
        fuzz: None,
        insertion_order_stage: false,
    }
}
