pub mod c01;

use crate::engine::Prop;

pub fn all() -> Vec<Prop> {
    vec![c01::prop()]
}
