pub mod c01;
pub mod c02;
pub mod c03;
pub mod c04;
pub mod c05;
pub mod c06;
pub mod c07;
pub mod c08;
pub mod c09;
pub mod c10;
pub mod c11;
pub mod c12;
pub mod c13;
pub mod c14;
pub mod c15;

use crate::engine::Prop;

pub fn all() -> Vec<Prop> {
    vec![c01::prop(), c02::prop(), c03::prop(), c04::prop(), c05::prop(), c06::prop(), c07::prop(), c08::prop(), c09::prop(), c10::prop(), c11::prop(), c12::prop(), c13::prop(), c14::prop(), c15::prop()]
}
