//! C04 — filter comparisons follow the RFC 9535 comparison rules (exhaustive table + random deep values)

use crate::ast::*;
use crate::engine::*;
use crate::gen::*;
use crate::json::*;
use crate::libx::{self, LibErr};
use crate::oracle::{self, Quirks};
use crate::src::Src;
use serde_json::{json, Value};

pub const ID: &str = "C04";

fn s(x: &str) -> J {
    J::Str(x.to_string())
}
fn o(m: Vec<(&str, J)>) -> J {
    J::Obj(m.into_iter().map(|(k, v)| (k.to_string(), v)).collect())
}

/// value universe with deliberate collisions; `None` is Nothing (an empty query result)
pub fn universe() -> Vec<Option<J>> {
    let mut v: Vec<Option<J>> = vec![None];
    v.extend(
        vec![
            J::Null,
            J::Bool(true),
            J::Bool(false),
            J::Int(0),
            J::Float(-0.0),
            J::Int(1),
            J::Float(1.0),
            J::Int(-1),
            J::Float(1.5),
            J::Int(2),
            J::Int(MAX_SAFE),
            J::Int(-MAX_SAFE),
            J::Float((MAX_SAFE - 1) as f64),
            // beyond the I-JSON range (see gen::BIG_INTS)
            J::Int(1 << 53),
            J::Float((1u64 << 53) as f64),
            J::Int(i64::MAX),
            J::Int(i64::MIN),
            J::UInt((1 << 63) + 2048),
            J::UInt(u64::MAX),
            J::Float(0.1 + 0.2),
            J::Float(0.3),
            J::Float(1e-17),
            J::Float(1e300),
            s(""),
            s("a"),
            s("b"),
            s("ab"),
            s("A"),
            s("\u{e9}"),
            s("\u{ffff}"),
            s("\u{10000}"),
            s("1"),
            s("true"),
            s("null"),
            J::Arr(vec![]),
            J::Arr(vec![J::Int(1)]),
            J::Arr(vec![J::Float(1.0)]),
            J::Arr(vec![J::Int(1), J::Int(2)]),
            J::Arr(vec![J::Int(2), J::Int(1)]),
            J::Arr(vec![J::Arr(vec![J::Int(1)])]),
            J::Arr(vec![J::Null]),
            o(vec![]),
            o(vec![("a", J::Int(1))]),
            o(vec![("a", J::Float(1.0))]),
            o(vec![("a", J::Int(1)), ("b", J::Int(2))]),
            o(vec![("b", J::Int(2)), ("a", J::Int(1))]),
            o(vec![("a", J::Int(2))]),
            o(vec![("b", J::Int(1))]),
            o(vec![("a", J::Null)]),
        ]
        .into_iter()
        .map(Some),
    );
    v
}

#[derive(Clone, Copy, Debug, PartialEq)]
pub enum Form {
    RelDot,
    RelBracket,
    RelViaArray,
    AbsRoot,
    ValueFn,
    ValueFnWild,
    Literal,
}
pub const FORMS: [Form; 7] = [Form::RelDot, Form::RelBracket, Form::RelViaArray, Form::AbsRoot, Form::ValueFn, Form::ValueFnWild, Form::Literal];

fn name_step(n: &str, dot: bool) -> SingStep {
    SingStep::Name(StrLit::plain(n), dot)
}
fn name_seg(n: &str) -> Seg {
    Seg { desc: false, sels: vec![Sel::Name(StrLit::plain(n))], dot: true }
}

/// the comparable that denotes side `side` ("x" or "y") in the given form
fn operand(form: Form, side: &str, val: &Option<J>, alt_spelling: u32) -> Option<Cmpable> {
    let l = format!("l{}", side);
    let g = format!("g{}", side);
    Some(match form {
        Form::RelDot => Cmpable::Sing(Sing { abs: false, steps: vec![name_step(side, true)] }),
        Form::RelBracket => Cmpable::Sing(Sing { abs: false, steps: vec![name_step(side, false)] }),
        Form::RelViaArray => Cmpable::Sing(Sing { abs: false, steps: vec![name_step(&l, true), SingStep::Index(0)] }),
        Form::AbsRoot => Cmpable::Sing(Sing { abs: true, steps: vec![name_step(&g, true)] }),
        Form::ValueFn => Cmpable::F(Func { name: "value".into(), args: vec![Arg::Q(Query { abs: false, segs: vec![name_seg(side)] })] }),
        Form::ValueFnWild => Cmpable::F(Func {
            name: "value".into(),
            args: vec![Arg::Q(Query { abs: false, segs: vec![name_seg(&l), Seg { desc: false, sels: vec![Sel::Wild], dot: true }] })],
        }),
        Form::Literal => Cmpable::Lit(match val {
            None => return None,
            Some(J::Null) => Lit::Null,
            Some(J::Bool(b)) => Lit::Bool(*b),
            Some(J::Int(i)) if i.unsigned_abs() > MAX_SAFE as u64 => Lit::Num(exact_float_lit_i(*i)?),
            Some(J::UInt(u)) => Lit::Num(exact_float_lit_u(*u)?),
            Some(J::Int(i)) => Lit::Num(match alt_spelling % 3 {
                0 => num_lit_int(*i),
                1 if i.abs() < 1_000_000 => NumLit { text: format!("{}.0", i), val: *i as f64, int_text: false },
                2 if i.abs() < 1_000_000 => NumLit { text: format!("{}e0", i), val: *i as f64, int_text: false },
                _ => num_lit_int(*i),
            }),
            // a literal beyond the range of f64: mathematically above (below) every double
            Some(J::Float(f)) if f.is_infinite() => Lit::Num(NumLit {
                text: format!("{}{}", if *f < 0.0 { "-" } else { "" }, ["1e400", "1E+999", "18e307", "2.5e+308", "1.0e309"][(alt_spelling % 5) as usize]),
                val: *f,
                int_text: false,
            }),
            Some(J::Float(f)) => Lit::Num(if f.fract() == 0.0 && f.abs() < 1e6 && !(*f == 0.0 && f.is_sign_negative()) && alt_spelling % 2 == 1 {
                num_lit_int(*f as i64)
            } else {
                num_lit_float(*f)
            }),
            Some(J::Str(x)) => Lit::Str(if alt_spelling % 2 == 0 { StrLit::with_quote(x, Quote::S) } else { StrLit::with_quote(x, Quote::D) }),
            Some(_) => return None,
        }),
    })
}

fn cell_doc(a: &Option<J>, b: &Option<J>) -> J {
    let mut elem: Vec<(String, J)> = vec![];
    let mut root: Vec<(String, J)> = vec![];
    for (side, v) in [("x", a), ("y", b)] {
        match v {
            Some(v) => {
                elem.push((side.to_string(), v.clone()));
                elem.push((format!("l{}", side), J::Arr(vec![v.clone()])));
                root.push((format!("g{}", side), v.clone()));
            }
            None => elem.push((format!("l{}", side), J::Arr(vec![]))),
        }
    }
    root.push(("e".to_string(), J::Arr(vec![J::Obj(elem)])));
    J::Obj(root).sorted()
}

fn cell_query(l: Cmpable, op: Op, r: Cmpable) -> Query {
    Query {
        abs: true,
        segs: vec![
            name_seg("e"),
            Seg { desc: false, sels: vec![Sel::Filter(Expr::Cmp(Box::new(l), op, Box::new(r)))], dot: false },
        ],
    }
}

fn kind(v: &Option<J>) -> &'static str {
    match v {
        None => "nothing",
        Some(J::Null) => "null",
        Some(J::Bool(_)) => "bool",
        Some(J::Int(_)) | Some(J::UInt(_)) | Some(J::Float(_)) => "number",
        Some(J::Str(_)) => "string",
        Some(J::Arr(_)) => "array",
        Some(J::Obj(_)) => "object",
    }
}

/// library truth of `q` on `doc`: does the single candidate element survive the filter?
fn lib_truth(q: &Query, doc: &J, obs: &mut Obs) -> Result<bool, Failure> {
    let text = render_plain(q);
    let v = doc.to_value();
    let map = node_map(&v);
    obs.eval(1);
    match libx::query_with_path(&v, &map, &text) {
        Ok(n) => Ok(!n.is_empty()),
        Err(LibErr::Err(e)) => Err(Failure::new(format!("valid comparison rejected: {}", e), json!({"query": text, "doc": doc.to_value()}))),
        Err(LibErr::Panic(p)) => Err(Failure::new(format!("panic: {}", p), json!({"query": text, "doc": doc.to_value()}))),
    }
}

fn check_cell(a: &Option<J>, b: &Option<J>, fa: Form, fb: Form, alt: u32, obs: &mut Obs) -> Res {
    check_cell_mode(a, b, fa, fb, alt, false, obs)
}

/// `laws_only`: the pair lies where this check does not say which of `<`, `==`, `>` holds (an integer beyond
/// 2^53 against the double next to it, integers above i64::MAX that share a double): only the laws the
/// property states for *any* two numbers are asserted on the library's six answers
fn check_cell_mode(a: &Option<J>, b: &Option<J>, fa: Form, fb: Form, alt: u32, laws_only: bool, obs: &mut Obs) -> Res {
    let (la, lb) = match (operand(fa, "x", a, alt), operand(fb, "y", b, alt / 3)) {
        (Some(x), Some(y)) => (x, y),
        _ => return Ok(()),
    };
    let doc = cell_doc(a, b);
    let mut truth = [false; 6];
    for (i, op) in Op::ALL.iter().enumerate() {
        let q = cell_query(la.clone(), *op, lb.clone());
        let exp = oracle::compare(a.as_ref(), *op, b.as_ref());
        let text = render_plain(&q);
        let nontrivial = kind(a) != kind(b) || matches!(kind(a), "array" | "object" | "nothing") || (kind(a) == "number" && a.as_ref().map(|x| x.text()) != b.as_ref().map(|x| x.text()));
        if nontrivial {
            obs.nontrivial(&(text.as_str(), doc.text()), || json!({"query": text, "doc": doc.to_value(), "expected": exp}));
        }
        let got = lib_truth(&q, &doc, obs)?;
        truth[i] = got;
        // the same cell on a Queryable type that keeps integers and floats apart (integers answer
        // only to as_i64): "numbers by mathematical value whether stored as integer or float"
        if !laws_only && matches!(fa, Form::RelDot | Form::Literal | Form::AbsRoot) && matches!(fb, Form::RelDot | Form::Literal | Form::AbsRoot) && !has_escape_cell(&la, &lb) {
            use jsonpath_rust::JsonPath;
            let v1 = crate::vq::V1::from_j(&doc);
            obs.eval(1);
            let got1 = match guarded(|| v1.query_only_path(&text)) {
                Ok(Ok(r)) => !r.is_empty(),
                other => {
                    return Err(Failure::new(
                        format!("comparison fails on a second Queryable type: {:?}", other.map(|r| r.map_err(|e| e.to_string()))),
                        json!({"query": text, "doc": doc.to_value()}),
                    ))
                }
            };
            if got1 != exp {
                return Err(Failure::new(
                    format!("on a Queryable type with separate integer and float variants, `{}` between {} and {} is {} but RFC 9535 2.3.5.2.2 says {}", op.text(), show(a), show(b), got1, exp),
                    json!({"query": text, "doc": doc.to_value(), "expected": exp, "library_on_V1": got1, "library_on_Value": got}),
                ));
            }
        }
        if got != exp && !laws_only {
            // attribution: evaluate the whole query with the reference evaluator under open quirks
            let att = attribute(ID, &got, |k| !oracle::eval(&q, &doc, k).is_empty());
            match att {
                Attribution::Strict => {
                    return Err(Failure::new("harness inconsistency: compare() and the reference evaluator disagree", json!({"query": text, "doc": doc.to_value()})));
                }
                Attribution::Known(bits) => {
                    for id in finding_ids_for_bits(ID, bits) {
                        obs.known(&id, || json!({"query": text, "doc": doc.to_value()}));
                    }
                }
                Attribution::Unexplained => {
                    return Err(Failure::new(
                        format!("comparison `{}` between {} and {} is {} but RFC 9535 2.3.5.2.2 says {}", op.text(), show(a), show(b), got, exp),
                        json!({"query": text, "doc": doc.to_value(), "left": show(a), "right": show(b), "operator": op.text(), "expected": exp, "library": got}),
                    ));
                }
            }
        }
    }
    // algebraic laws on the library's own answers (order of Op::ALL: == != < <= > >=)
    let (eq, ne, lt, le, gt, ge) = (truth[0], truth[1], truth[2], truth[3], truth[4], truth[5]);
    let law = |ok: bool, name: &str| -> Res {
        if ok {
            Ok(())
        } else {
            Err(Failure::new(
                format!("law violated on the library's answers: {} (left {}, right {})", name, show(a), show(b)),
                json!({"doc": doc.to_value(), "left_form": format!("{:?}", fa), "right_form": format!("{:?}", fb), "answers(== != < <= > >=)": truth}),
            ))
        }
    };
    if open_quirks(ID) == 0 || !has_escape_cell(&la, &lb) {
        law(ne == !eq, "`!=` is not `not ==`")?;
        law(le == (lt || eq), "`<=` is not `< or ==`")?;
        law(ge == (gt || eq), "`>=` is not `> or ==`")?;
        if (kind(a) == "number" && kind(b) == "number") || (kind(a) == "string" && kind(b) == "string") {
            law([lt, eq, gt].iter().filter(|x| **x).count() == 1, "exactly one of < == > for two numbers / two strings")?;
        } else {
            law(!lt && !gt, "`<` / `>` across types or on non-orderable values must be false")?;
        }
    }
    Ok(())
}

fn has_escape_cell(a: &Cmpable, b: &Cmpable) -> bool {
    let e = |c: &Cmpable| matches!(c, Cmpable::Lit(Lit::Str(s)) if s.has_escape());
    e(a) || e(b)
}

fn show(v: &Option<J>) -> String {
    match v {
        None => "Nothing".to_string(),
        Some(J::Float(f)) if f.is_infinite() => format!("the literal {}1e400", if *f < 0.0 { "-" } else { "" }),
        Some(j) => j.text(),
    }
}

fn table(obs: &mut Obs, thorough: bool) -> Res {
    let u = universe();
    let mut cells = 0u64;
    for (i, a) in u.iter().enumerate() {
        for (j, b) in u.iter().enumerate() {
            for (fi, fa) in FORMS.iter().enumerate() {
                for (fj, fb) in FORMS.iter().enumerate() {
                    // quick tier: every pair in the three basic forms on each side plus a rotating extra form
                    if !thorough {
                        let basic = |f: usize| f == 0 || f == 3 || f == 6;
                        let extra = (i + j) % FORMS.len();
                        if !((basic(fi) || fi == extra) && (basic(fj) || fj == (extra + 3) % FORMS.len())) {
                            continue;
                        }
                    }
                    check_cell(a, b, *fa, *fb, (i * 7 + j) as u32, obs)?;
                    cells += 1;
                }
            }
        }
    }
    obs.boxes.push(json!({"box": "comparison table", "values": u.len(), "operators": 6, "forms_per_side": FORMS.len(), "cells(x6 operators)": cells,
        "exhaustive": true, "note": if thorough { "all form pairs" } else { "forms: @.x, $.gx, literal on each side plus a rotating extra form per pair" }}));
    Ok(())
}

/// numeric results of length() and count() take part in comparisons as ordinary numbers
fn table_fn_numbers(obs: &mut Obs, _thorough: bool) -> Res {
    let mut n = 0;
    for len in 0..4usize {
        for k in -1..5i64 {
            for kf in [false, true] {
                let strv: String = "\u{1d11e}".repeat(len);
                let arrv = J::Arr((0..len as i64).map(J::Int).collect());
                let doc = J::Obj(vec![("e".into(), J::Arr(vec![J::Obj(vec![("s".into(), J::Str(strv)), ("l".into(), arrv)])]))]).sorted();
                let lit = Cmpable::Lit(Lit::Num(if kf { NumLit { text: format!("{}.0", k), val: k as f64, int_text: false } } else { num_lit_int(k) }));
                let fs = vec![
                    Func { name: "length".into(), args: vec![Arg::Q(Query { abs: false, segs: vec![name_seg("s")] })] },
                    Func { name: "length".into(), args: vec![Arg::Q(Query { abs: false, segs: vec![name_seg("l")] })] },
                    Func { name: "count".into(), args: vec![Arg::Q(Query { abs: false, segs: vec![name_seg("l"), Seg { desc: false, sels: vec![Sel::Wild], dot: true }] })] },
                ];
                for f in fs {
                    for op in Op::ALL {
                        for flip in [false, true] {
                            let (l, r) = if flip { (lit.clone(), Cmpable::F(f.clone())) } else { (Cmpable::F(f.clone()), lit.clone()) };
                            let q = cell_query(l, op, r);
                            let exp = !oracle::eval(&q, &doc, &Quirks::strict()).is_empty();
                            let text = render_plain(&q);
                            obs.nontrivial(&(text.as_str(), len), || json!({"query": text, "doc": doc.to_value(), "expected": exp}));
                            let got = lib_truth(&q, &doc, obs)?;
                            n += 1;
                            if got != exp {
                                return Err(Failure::new("a function result does not compare like the number it denotes", json!({"query": text, "doc": doc.to_value(), "expected": exp, "library": got})));
                            }
                        }
                    }
                }
            }
        }
    }
    obs.boxes.push(json!({"box": "length()/count() results against numbers", "cells": n, "exhaustive": true}));
    Ok(())
}

// ------------------------------------------------------------------------------------------------
// random: deep structured equality (metamorphic) and numeric neighbours

/// a copy that must compare equal: numbers respelled (int <-> float when integral), members reordered
fn equal_copy(src: &mut Src, v: &J) -> J {
    match v {
        J::Int(i) if i.unsigned_abs() < (1 << 50) && src.bool() => J::Float(*i as f64),
        J::Float(f) if f.fract() == 0.0 && f.abs() < 1e15 && !(*f == 0.0 && f.is_sign_negative()) && src.bool() => J::Int(*f as i64),
        J::Arr(a) => J::Arr(a.iter().map(|x| equal_copy(src, x)).collect()),
        J::Obj(m) => {
            let mut m2: Vec<(String, J)> = m.iter().map(|(k, x)| (k.clone(), equal_copy(src, x))).collect();
            if m2.len() > 1 && src.bool() {
                let i = src.below(m2.len());
                let e = m2.remove(i);
                m2.insert(0, e);
            }
            J::Obj(m2)
        }
        x => x.clone(),
    }
}

/// a copy that differs in exactly one place (or None if no place could be changed)
fn unequal_copy(src: &mut Src, v: &J) -> Option<J> {
    let locs = v.all_locs();
    let l = src.pick(&locs).clone();
    let mut c = v.clone();
    let t = c.get_loc_mut(&l)?;
    let new = match t {
        J::Null => J::Bool(false),
        J::Bool(b) => J::Bool(!*b),
        J::Int(i) => {
            if src.bool() {
                // the neighbour (beyond 2^53 it has the same double)
                J::Int(if *i == i64::MAX { *i - 1 } else { *i + 1 })
            } else {
                J::Str(i.to_string())
            }
        }
        J::Float(f) => J::Float(*f + 0.5),
        J::UInt(u) => J::UInt(*u - 2048),
        J::Str(x) => J::Str(format!("{}a", x)),
        J::Arr(a) => {
            let mut a = a.clone();
            if a.is_empty() || src.bool() {
                a.push(J::Null);
            } else {
                a.pop();
            }
            J::Arr(a)
        }
        J::Obj(m) => {
            let mut m = m.clone();
            if m.is_empty() || src.bool() {
                m.push(("zz".to_string(), J::Null));
            } else {
                m.pop();
            }
            J::Obj(m)
        }
    };
    *t = new;
    Some(c)
}

/// a wide array or object (size at a threshold) and a few relatives: equal copies (numbers respelled
/// int <-> float, members reordered) and copies changed in exactly one place
pub fn gen_wide_family(src: &mut Src) -> (J, Vec<J>) {
    let n = *src.pick(&[15usize, 16, 17, 18, 31, 32, 33, 63, 64, 65, 100, 255, 256, 257]);
    let scalar = |src: &mut Src| -> J {
        match src.below(6) {
            0 => J::Int(src.range(-3, 50)),
            1 => J::Float(src.range(-3, 50) as f64),
            2 => J::Float(src.range(0, 9) as f64 + 0.5),
            3 => J::Str(format!("s{}", src.below(5))),
            4 => J::Null,
            _ => J::Arr(vec![J::Int(src.range(0, 3)), J::Float(src.range(0, 3) as f64)]),
        }
    };
    let base = if src.bool() {
        J::Obj((0..n).map(|i| (format!("m{:03}", i), scalar(src))).collect())
    } else {
        J::Arr((0..n).map(|_| scalar(src)).collect())
    };
    let k = 1 + src.below(4);
    let rel: Vec<J> = (0..k)
        .map(|_| {
            if src.bool() {
                equal_copy(src, &base)
            } else {
                unequal_copy(src, &base).unwrap_or_else(|| base.clone())
            }
        })
        .collect();
    (base, rel)
}

fn random_wide(src: &mut Src, obs: &mut Obs) -> Res {
    let (base, rel) = gen_wide_family(src);
    let other = src.pick(&rel).clone();
    obs.label("wide-structures");
    let forms = [Form::RelDot, Form::AbsRoot, Form::ValueFn];
    let fa = *src.pick(&forms);
    let fb = *src.pick(&forms);
    check_cell(&Some(base.sorted()), &Some(other.sorted()), fa, fb, 0, obs)
}

fn random_deep(src: &mut Src, obs: &mut Obs) -> Res {
    let mut cfg = GenCfg::plain();
    cfg.max_depth = 4;
    // member names of the compared values may be anything (quotes at the ends, backslashes, controls):
    // they are never written in the query
    cfg.special_keys = true;
    let d = 1 + src.below(4);
    let a = gen_value(src, d, &cfg);
    let (b, expect_eq) = if src.bool() {
        (equal_copy(src, &a), true)
    } else {
        match unequal_copy(src, &a) {
            Some(b) => (b, false),
            None => (a.clone(), true),
        }
    };
    let _ = expect_eq;
    let (a, b) = (a.sorted(), b.sorted());
    let expect_eq = eq_json(&a, &b);
    let (a, b) = (Some(a), Some(b));
    obs.label(if expect_eq { "equal-copy" } else { "unequal-copy" });
    let forms = [Form::RelDot, Form::AbsRoot, Form::RelViaArray, Form::ValueFn];
    let fa = *src.pick(&forms);
    let fb = *src.pick(&forms);
    check_cell(&a, &b, fa, fb, 0, obs)
}

fn next_up(f: f64) -> f64 {
    if f == 0.0 {
        return f64::from_bits(1);
    }
    let b = f.to_bits();
    f64::from_bits(if f > 0.0 { b + 1 } else { b - 1 })
}

/// number literals beyond the range of f64 (`1e400`, `-18e307`): valid spellings of numbers above (below)
/// every double, against every kind of value and against each other
fn random_overflow_literals(src: &mut Src, obs: &mut Obs) -> Res {
    let a = Some(J::Float(if src.chance(1, 3) { f64::NEG_INFINITY } else { f64::INFINITY }));
    let u = universe();
    let (b, fb) = if src.chance(1, 8) {
        (Some(J::Float(if src.bool() { f64::NEG_INFINITY } else { f64::INFINITY })), Form::Literal)
    } else {
        (src.pick(&u).clone(), *src.pick(&FORMS))
    };
    obs.label("literal-beyond-f64-range");
    let alt = src.below(30) as u32;
    if src.bool() {
        check_cell(&a, &b, Form::Literal, fb, alt, obs)
    } else {
        check_cell(&b, &a, fb, Form::Literal, alt, obs)
    }
}

/// numbers whose comparison this check does not predict (an integer beyond 2^53 and the double next to it,
/// two integers above i64::MAX with the same double): whatever the answer, the six operators must stay
/// consistent with each other - `!=` is `not ==`, `<=` is `< or ==`, exactly one of `<`, `==`, `>` holds
fn random_number_laws(src: &mut Src, obs: &mut Obs) -> Res {
    let big: i64 = match src.below(4) {
        0 => (1 << 53) + 1 + 2 * src.range(0, 500),
        1 => 1_186_275_104_485_195_777 + src.range(-50, 50),
        2 => i64::MAX - src.range(0, 1000),
        _ => src.range(1 << 53, i64::MAX - 1),
    };
    let big = if src.chance(1, 4) { -big } else { big };
    let near = |src: &mut Src, f: f64| -> f64 {
        match src.below(3) {
            0 => f,
            1 => next_up(f),
            _ => -next_up(-f),
        }
    };
    let (a, b) = match src.below(4) {
        0 | 1 => (J::Int(big), J::Float(near(src, big as f64))),
        2 => {
            let u = *src.pick(&[1u64 << 63, (1u64 << 63) + 1, (1u64 << 63) + 1025, u64::MAX, u64::MAX - 1, u64::MAX - 1024]);
            (J::UInt(u), if src.bool() { J::UInt(*src.pick(&[1u64 << 63, (1u64 << 63) + 1, u64::MAX, u64::MAX - 1])) } else { J::Float(near(src, u as f64)) })
        }
        _ => (J::Int(i64::MAX - src.range(0, 600)), J::UInt((1u64 << 63) + src.range(0, 600) as u64)),
    };
    obs.label("laws-only(integer-beyond-2^53-against-a-double-or-shared-double)");
    let forms = [Form::RelDot, Form::AbsRoot, Form::RelViaArray, Form::ValueFn];
    let fa = *src.pick(&forms);
    let fb = if matches!(b, J::Float(_)) && src.chance(1, 3) { Form::Literal } else { *src.pick(&forms) };
    let alt = src.below(9) as u32;
    if src.bool() {
        check_cell_mode(&Some(a), &Some(b), fa, fb, alt, true, obs)
    } else {
        check_cell_mode(&Some(b), &Some(a), fb, fa, alt, true, obs)
    }
}

/// two integers beyond 2^53 that are neighbours (equal as doubles), through every operator
fn random_big_integers(src: &mut Src, obs: &mut Obs) -> Res {
    let mag: i64 = match src.below(4) {
        0 => (1 << 53) + src.range(0, 1000),
        1 => (1i64 << (54 + src.below(9))) + src.range(-3, 3),
        2 => i64::MAX - src.range(0, 1000),
        _ => src.range(1 << 53, i64::MAX - 1),
    };
    let a = if src.bool() { mag } else { -mag };
    let b = match src.below(4) {
        0 => a,
        1 => a.saturating_add(1),
        2 => a.saturating_sub(1),
        _ => a.saturating_add(src.range(-600, 600)),
    };
    obs.label("integer-neighbours-beyond-2^53");
    let forms = [Form::RelDot, Form::AbsRoot, Form::RelViaArray, Form::ValueFn];
    let fa = *src.pick(&forms);
    let fb = *src.pick(&forms);
    check_cell(&Some(J::Int(a)), &Some(J::Int(b)), fa, fb, 0, obs)
}

fn random_numbers(src: &mut Src, obs: &mut Obs) -> Res {
    let base: f64 = match src.below(6) {
        0 => src.range(-1000, 1000) as f64,
        1 => src.range(-1000, 1000) as f64 / 8.0,
        2 => *src.pick(&[0.1, 0.2, 0.3, 0.7, 1e-7, 1e-17, 1e17, 1e300, 123456.789]),
        3 => (src.range(-(1 << 40), 1 << 40) as f64) * 1.0,
        4 => src.range(-MAX_SAFE, MAX_SAFE) as f64,
        _ => (src.next() as f64) / (1u64 << 20) as f64,
    };
    let a = if base.fract() == 0.0 && base.abs() <= MAX_SAFE as f64 && src.bool() { J::Int(base as i64) } else { J::Float(base) };
    let b = match src.below(5) {
        0 => J::Float(next_up(base)),
        1 => J::Float(-next_up(-base)),
        2 => {
            if base.fract() == 0.0 && base.abs() <= MAX_SAFE as f64 {
                J::Int(base as i64)
            } else {
                J::Float(base)
            }
        }
        3 => J::Float(base + f64::EPSILON / 4.0),
        _ => J::Float(base * (1.0 + 1e-12)),
    };
    if !b.num().map_or(false, |x| x.is_finite()) {
        return Ok(());
    }
    obs.label("numeric-neighbours");
    let forms = [Form::RelDot, Form::Literal, Form::AbsRoot];
    let fa = *src.pick(&forms);
    let fb = *src.pick(&forms);
    let alt = src.below(9) as u32;
    check_cell(&Some(a), &Some(b), fa, fb, alt, obs)
}

/// string literals that need escapes (region of the open finding K4) against the values they denote
fn random_escaped_literals(src: &mut Src, obs: &mut Obs) -> Res {
    let chars = ['a', '\'', '"', '\\', '\n', '\t', '/', '\u{e9}', '\u{1d11e}', '\u{1}', 'b'];
    let n = 1 + src.below(4);
    let val: String = (0..n).map(|_| *src.pick(&chars)).collect();
    let other: String = if src.bool() { val.clone() } else { (0..n).map(|_| *src.pick(&chars)).collect() };
    let lit = spell_str(src, &val, true);
    let a = Some(J::Str(other));
    let b = Some(J::Str(val.clone()));
    let doc = cell_doc(&a, &b);
    let op = *src.pick(&Op::ALL);
    let q = cell_query(Cmpable::Sing(Sing { abs: false, steps: vec![name_step("x", true)] }), op, Cmpable::Lit(Lit::Str(lit.clone())));
    let text = render_plain(&q);
    let exp = oracle::compare(a.as_ref(), op, b.as_ref());
    obs.label(if lit.has_escape() { "literal-with-escape" } else { "literal-without-escape" });
    obs.nontrivial(&(text.as_str(), doc.text()), || json!({"query": text, "doc": doc.to_value(), "expected": exp}));
    let got = lib_truth(&q, &doc, obs)?;
    match attribute(ID, &got, |k| !oracle::eval(&q, &doc, k).is_empty()) {
        Attribution::Strict => Ok(()),
        Attribution::Known(bits) => {
            for id in finding_ids_for_bits(ID, bits) {
                obs.known(&id, || json!({"query": text, "doc": doc.to_value()}));
            }
            Ok(())
        }
        Attribution::Unexplained => Err(Failure::new(
            "comparison with a string literal differs from RFC 9535",
            json!({"query": text, "doc": doc.to_value(), "expected": exp, "library": got}),
        )),
    }
}

/// singular-query operands whose member names contain `/` or a backslash, written with the escapes
/// `\/` and `\\` (the two escapes the library decodes in name selectors) or plainly
fn random_escaped_names(src: &mut Src, obs: &mut Obs) -> Res {
    let names = ["a/b", "/", "\\", "a\\b", "//", "a/", "\\/"];
    let n1 = *src.pick(&names);
    let n2 = *src.pick(&names);
    let spell = |src: &mut Src, name: &str| -> StrLit {
        let mut raw = String::new();
        for c in name.chars() {
            match c {
                '/' => raw.push_str(if src.bool() { "\\/" } else { "/" }),
                '\\' => raw.push_str("\\\\"),
                c => raw.push(c),
            }
        }
        StrLit { val: name.to_string(), quote: if src.bool() { Quote::S } else { Quote::D }, raw }
    };
    let vals = [J::Int(1), J::Int(2), J::Str("x".into()), J::Null];
    let mut m: Vec<(String, J)> = vec![];
    for n in names {
        if src.chance(2, 3) {
            m.push((n.to_string(), src.pick(&vals).clone()));
        }
    }
    let doc = J::Obj(vec![("e".to_string(), J::Arr(vec![J::Obj(m.clone())])), ("g".to_string(), J::Obj(m))]).sorted();
    let l = Cmpable::Sing(Sing { abs: false, steps: vec![SingStep::Name(spell(src, n1), false)] });
    let r = match src.below(3) {
        0 => Cmpable::Sing(Sing { abs: true, steps: vec![name_step("g", true), SingStep::Name(spell(src, n2), false)] }),
        1 => Cmpable::Sing(Sing { abs: false, steps: vec![SingStep::Name(spell(src, n2), false)] }),
        _ => Cmpable::Lit(Lit::Num(num_lit_int(src.range(1, 2)))),
    };
    let op = *src.pick(&Op::ALL);
    let q = cell_query(l, op, r);
    let text = render_plain(&q);
    let exp = !oracle::eval(&q, &doc, &Quirks::strict()).is_empty();
    obs.label("escaped-slash-or-backslash-in-operand-name");
    obs.nontrivial(&(text.as_str(), doc.text()), || json!({"query": text, "doc": doc.to_value(), "expected": exp}));
    let got = lib_truth(&q, &doc, obs)?;
    if got != exp {
        return Err(Failure::new(
            "comparison whose operand is a singular query with an escaped `/` or backslash in a member name differs from RFC 9535",
            json!({"query": text, "doc": doc.to_value(), "expected": exp, "library": got}),
        ));
    }
    Ok(())
}

/// two DIFFERENT singular queries whose texts run together to the same characters once dots, brackets and
/// quotes are taken away (`@.user.id` / `@.userid`, `@.l[1]` / `@.l1`, `@.m[1][2]` / `@.m[12]`): operands are
/// what they select, not how they are spelled
fn random_lookalike_operands(src: &mut Src, obs: &mut Obs) -> Res {
    let vals = [J::Int(8), J::Int(9), J::Str("8".into()), J::Str("a".into()), J::Null, J::Bool(true), J::Float(8.0), J::Arr(vec![J::Int(8)])];
    let mut val = |src: &mut Src| -> Option<J> {
        if src.chance(1, 5) {
            None
        } else {
            Some(src.pick(&vals).clone())
        }
    };
    let n = 1 + src.below(4);
    let mut rows = vec![];
    for _ in 0..n {
        let mut m: Vec<(String, J)> = vec![];
        let mut put = |m: &mut Vec<(String, J)>, k: &str, v: Option<J>| {
            if let Some(v) = v {
                m.push((k.to_string(), v));
            }
        };
        // user.id next to userid; l[1] next to l1; m[1][2] next to m[12]
        let uid = val(src);
        put(&mut m, "user", Some(J::Obj(uid.into_iter().map(|v| ("id".to_string(), v)).collect())));
        put(&mut m, "userid", val(src));
        let l1 = val(src).unwrap_or(J::Null);
        put(&mut m, "l", Some(J::Arr(vec![J::Int(0), l1])));
        put(&mut m, "l1", val(src));
        let deep = val(src).unwrap_or(J::Int(1));
        let mut big: Vec<J> = (0..13).map(|i| J::Int(100 + i)).collect();
        big[1] = J::Arr(vec![J::Int(0), J::Int(1), deep]);
        if let Some(v) = val(src) {
            big[12] = v;
        }
        put(&mut m, "m", Some(J::Arr(big)));
        rows.push(J::Obj(m).sorted());
    }
    let doc = J::Arr(rows);
    let pairs = [
        ("@.user.id", "@.userid"),
        ("@.userid", "@.user.id"),
        ("@['user']['id']", "@.userid"),
        ("@.l[1]", "@.l1"),
        ("@.l1", "@.l[1]"),
        ("@.m[1][2]", "@.m[12]"),
        ("$[0].user.id", "$[0].userid"),
        ("@.user.id", "$[0].userid"),
        ("value(@.user.id)", "value(@.userid)"),
        ("length(@.user.id)", "length(@.userid)"),
        // control: really the same operand
        ("@.user.id", "@['user'].id"),
    ];
    let (a, b) = *src.pick(&pairs);
    let op = src.pick(&Op::ALL).text();
    let text = format!("$[?{} {} {}]", a, op, b);
    obs.label("lookalike-operands");
    obs.nontrivial(&(text.as_str(), doc.text()), || json!({"query": text, "doc": doc.to_value()}));
    direct(&json!({"query": text, "doc": doc.to_value()}), obs)
}

fn direct(case: &Value, obs: &mut Obs) -> Res {
    // {"query": "...", "doc": ..., } : the filter must keep exactly the nodes the reference evaluator keeps
    let (q, text, doc) = crate::props::c01::parse_direct(case)?;
    let v = doc.to_value();
    let map = node_map(&v);
    obs.eval(1);
    let got: Vec<Option<Loc>> = match libx::query_with_path(&v, &map, &text) {
        Ok(n) => n.iter().map(|x| x.loc.clone()).collect(),
        Err(e) => return Err(Failure::new(format!("query failed: {:?}", e), case.clone())),
    };
    match attribute(ID, &got, |k| oracle::eval(&q, &doc, k).iter().map(|n| Some(n.loc())).collect::<Vec<_>>()) {
        Attribution::Strict => Ok(()),
        Attribution::Known(bits) => {
            for id in finding_ids_for_bits(ID, bits) {
                obs.known(&id, || case.clone());
            }
            Ok(())
        }
        Attribution::Unexplained => Err(Failure::new("comparison result differs from RFC 9535", case.clone())),
    }
}

pub fn prop() -> Prop {
    Prop {
        id: ID,
        rule: "exhaustive table: every ordered pair of a 44-value universe (all JSON kinds, colliding numbers/strings/arrays/objects, and Nothing) x 6 operators x operand forms \
               (relative/absolute singular query, via array element, value(), literal); algebraic laws asserted on the library's own answers; \
               random deep values with equal/unequal copies (numbers respelled, members reordered), adjacent doubles, escaped string literals. \
               Non-trivial: operands of different kinds, or both structured, or Nothing involved, or two numbers with different spellings. Distinct by (query text, document).",
        assumptions: vec![
            "compare()/eq_json() in the harness transcribe RFC 9535 2.3.5.2.2 (self-tested on the RFC comparison table)",
            "numbers: finite doubles and integers within +-(2^53-1), compared exactly",
        ],
        subs: vec![
            Sub { name: "table", kind: Kind::Exhaustive(table) },
            Sub { name: "table-fn-numbers", kind: Kind::Exhaustive(table_fn_numbers) },
            Sub { name: "random-wide", kind: Kind::Random { f: random_wide, quick: 16_000, thorough: 320_000, len: 900 } },
            Sub { name: "random-deep", kind: Kind::Random { f: random_deep, quick: 100_000, thorough: 2_000_000, len: 300 } },
            Sub { name: "random-numbers", kind: Kind::Random { f: random_numbers, quick: 100_000, thorough: 2_000_000, len: 32 } },
            Sub { name: "random-overflow-literals", kind: Kind::Random { f: random_overflow_literals, quick: 20_000, thorough: 400_000, len: 32 } },
            Sub { name: "random-number-laws", kind: Kind::Random { f: random_number_laws, quick: 40_000, thorough: 800_000, len: 32 } },
            Sub { name: "random-big-integers", kind: Kind::Random { f: random_big_integers, quick: 40_000, thorough: 800_000, len: 32 } },
            Sub { name: "random-escaped-names", kind: Kind::Random { f: random_escaped_names, quick: 40_000, thorough: 800_000, len: 100 } },
            Sub { name: "random-lookalike-operands", kind: Kind::Random { f: random_lookalike_operands, quick: 40_000, thorough: 800_000, len: 100 } },
            Sub { name: "random-escaped-literals", kind: Kind::Random { f: random_escaped_literals, quick: 40_000, thorough: 800_000, len: 64 } },
        ],
        direct: Some(direct),
        selftest: Some(crate::rfc::selftest),
        fuzz: None,
        insertion_order_stage: false,
    }
}
