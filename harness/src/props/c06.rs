//! C06 — every valid RFC 9535 query is accepted by the parser

use crate::ast::*;
use crate::engine::*;
use crate::gen::{gen_doc, gen_query, GenCfg};
use crate::json::*;
use crate::libx::{self, LibErr};
use crate::recog::{classify, Verdict};
use crate::sentence::*;
use crate::src::Src;
use serde_json::{json, Value};

pub const ID: &str = "C06";

fn docs() -> Vec<Value> {
    vec![json!(1), json!([]), json!({"a": [1, {"b": "x", "a": [2, 3]}], "b": {"a": null}})]
}

pub fn features(s: &str, q: &Query) -> Vec<&'static str> {
    let mut f = vec![];
    let toks = tokenize(s);
    if toks.iter().any(|t| t.kind == TokKind::Blank) {
        f.push("blank");
    }
    let mut esc = false;
    let mut nonascii_name = false;
    for_each_str(q, &mut |st, is_name| {
        esc |= st.has_escape();
        nonascii_name |= is_name && !st.val.is_ascii();
    });
    if esc {
        f.push("escape");
    }
    if nonascii_name {
        f.push("non-ascii-name");
    }
    if toks.iter().any(|t| t.kind == TokKind::Num && (t.text.contains('.') || t.text.contains('e') || t.text.contains('E'))) {
        f.push("fraction/exponent");
    }
    let mut union = false;
    let mut nested = false;
    for_each_seg(q, &mut |sg, d| {
        union |= sg.sels.len() > 1;
        nested |= d >= 2;
    });
    if union {
        f.push("union");
    }
    if nested {
        f.push("nested-filter");
    }
    if toks.windows(2).any(|w| w[0].kind == TokKind::Ident && w[1].text == "(" && !w[0].text.is_empty()) {
        f.push("function-call");
    }
    f
}

/// `s` is valid by construction; the library must accept it
fn must_accept(s: &str, q: Option<&Query>, obs: &mut Obs, origin: &str) -> Res {
    let ast = match classify(s) {
        Verdict::Valid(a) => a,
        Verdict::NotJudged(why, _) => {
            obs.not_judged(&why);
            return Ok(());
        }
        Verdict::Invalid(r) => {
            return Err(Failure::new(
                format!("harness inconsistency: the {} generator produced a sentence the recogniser rejects ({} at {}: {})", origin, r.kind, r.pos, r.detail),
                json!({"query": s}),
            ))
        }
    };
    if let Some(q) = q {
        if render_plain(q) != render_plain(&ast) {
            // the recogniser must read the sentence back as the AST it was rendered from
            return Err(Failure::new(
                format!("harness inconsistency: the {} generator's AST and the recogniser's reading differ", origin),
                json!({"query": s, "generated": format!("{:?}", q), "recognised": format!("{:?}", ast)}),
            ));
        }
    }
    let feats = features(s, &ast);
    for f in &feats {
        obs.label(f);
    }
    if !feats.is_empty() {
        obs.nontrivial(&s, || json!({"query": s, "features": feats}));
    }
    obs.eval(1);
    match libx::parse(s) {
        Ok(_) => {}
        Err(LibErr::Err(e)) => {
            return Err(Failure::new(
                format!("a valid RFC 9535 query is rejected by parse_json_path: {}", e.lines().next().unwrap_or("")),
                json!({"query": s, "error": e}),
            ))
        }
        Err(LibErr::Panic(p)) => return Err(Failure::new(format!("parse_json_path panicked on a valid query: {}", p), json!({"query": s}))),
    }
    for d in docs() {
        obs.eval(1);
        if let Err(e) = libx::query_paths(&d, s) {
            return Err(Failure::new(format!("a valid RFC 9535 query fails in JsonPath::query: {:?}", e), json!({"query": s, "doc": d})));
        }
    }
    Ok(())
}

fn random_sentences(src: &mut Src, obs: &mut Obs) -> Res {
    let q = gen_valid(src);
    let s = render_spelled(src, &q);
    must_accept(&s, Some(&q), obs, "sentence")
}

fn random_doc_guided(src: &mut Src, obs: &mut Obs) -> Res {
    let mut cfg = GenCfg::plain();
    cfg.special_keys = true;
    cfg.free_escapes = true;
    cfg.free_lit_escapes = true;
    cfg.special_literals = true;
    cfg.regex = true;
    cfg.union_weight = 25;
    let doc = gen_doc(src, &cfg).sorted();
    let q = gen_query(src, &doc, &cfg);
    let s = render_spelled(src, &q);
    must_accept(&s, Some(&q), obs, "document-guided")
}

/// mutations of valid sentences that the recogniser still classifies as valid must be accepted too
fn random_mutants_still_valid(src: &mut Src, obs: &mut Obs) -> Res {
    let q = gen_valid(src);
    let s = render_spelled(src, &q);
    let m = if src.bool() {
        let mut toks = tokenize(&s);
        mutate_tokens(src, &mut toks);
        join(&toks)
    } else {
        mutate_chars(src, &s)
    };
    match classify(&m) {
        Verdict::Valid(_) => {
            obs.label("mutant-still-valid");
            must_accept(&m, None, obs, "mutation")
        }
        _ => Ok(()),
    }
}

/// acceptance must not depend on history: queries that the grammar lets through but the AST builder
/// rejects (out-of-range integers, ill-typed calls, non-comparable functions) are parsed first
fn random_valid_after_rejected(src: &mut Src, obs: &mut Obs) -> Res {
    let n = 1 + src.below(3);
    for _ in 0..n {
        let bad = match src.below(6) {
            0 => format!("$[?@.a == {}]", src.pick(&["9007199254740993", "-9007199254740993", "99999999999999999999"])),
            1 => format!("$[{}]", src.pick(&["9007199254740992", "-9007199254740992"])),
            2 => "$[?length(@.*) > 1]".to_string(),
            3 => "$[?match(@.a,'x') == true]".to_string(),
            4 => format!("$[?count({}) == 1 || @.b]", src.pick(&["1", "'a'", "length(@)"])),
            _ => {
                let q = gen_valid(src);
                let t = render_spelled(src, &q);
                mutate_chars(src, &t)
            }
        };
        let _ = libx::parse(&bad);
        let _ = libx::query_paths(&json!([1]), &bad);
    }
    obs.label("after-rejected-queries");
    let q = gen_valid(src);
    let s = render_spelled(src, &q);
    must_accept(&s, Some(&q), obs, "sentence")
}

/// valid queries nested 33 .. 900 deep (beyond that: the stack-exhaustion finding of C08)
fn deep_nesting(obs: &mut Obs, _thorough: bool) -> Res {
    let depths = [33usize, 48, 63, 64, 65, 100, 127, 128, 129, 200, 255, 256, 257, 400, 512, 513, 700, 900];
    let mut n = 0;
    for d in depths {
        let cases = [
            format!("$[?{}@.a{}]", "(".repeat(d), ")".repeat(d)),
            format!("$[?{}@.a{}]", "!(".repeat(d), ")".repeat(d)),
            format!("$[?{}@.a == 1{}]", "@[?".repeat(d), "]".repeat(d)),
            format!("$[?{}@.a{} == 1]", "length(".repeat(d), ")".repeat(d)),
            format!("$[?{}@.a{}]", "( ".repeat(d), " )".repeat(d)),
            format!("${}", "[0]".repeat(d)),
            format!("${}", "..a".repeat(d)),
            format!("$[{}0]", "0, ".repeat(d)),
            format!("$[?@.a{}]", " || @.b && @.c".repeat(d)),
            format!("$[?{}1 == 1{}]", "(@.a && ".repeat(d), ")".repeat(d)),
        ];
        for s in cases {
            must_accept(&s, None, obs, "deep-nesting box")?;
            n += 1;
        }
    }
    obs.boxes.push(json!({"box": "valid queries with nesting / length 33..900 of ( , !( , [?@ , length( , [0] , ..a , union members , || && chains", "queries": n, "exhaustive": true}));
    Ok(())
}

/// valid queries in which ONE token or one run is long (beyond 2^8, 2^10, 2^12, 2^16 characters): names in
/// every notation, string literals, patterns, fractions, exponents, runs of blanks, selections and chains
fn long_tokens(obs: &mut Obs, thorough: bool) -> Res {
    let sizes: Vec<usize> = if thorough { vec![255, 256, 257, 1023, 1025, 4097, 65535, 65536, 65537, 100_000, 300_000] } else { vec![255, 257, 1025, 4097, 65535, 65537, 100_000] };
    let mut n = 0;
    for &k in &sizes {
        let units = ["a", "\u{e9}", "\u{4e2d}", "\u{1d11e}", "_", "a1"];
        let mut cases: Vec<String> = vec![];
        for u in units {
            let name = u.repeat(k / u.chars().count().max(1));
            cases.push(format!("$.{}", name));
            cases.push(format!("$..{}.a", name));
            cases.push(format!("$['{}']", name));
            cases.push(format!("$[?@.{} == '{}']", name, name));
        }
        let half = k / 2;
        cases.push(format!("$[\"{}\"]", "\\n".repeat(half)));
        cases.push(format!("$['{}']", "\\u00e9".repeat(k / 6)));
        cases.push(format!("$['{}']", "\\uD834\\uDD1E".repeat(k / 12)));
        cases.push(format!("$['{}']", " ".repeat(k)));
        cases.push(format!("$[?@.a == \"{}\"]", "'".repeat(k)));
        cases.push(format!("$[?match(@.a, '{}')]", "a".repeat(k)));
        cases.push(format!("$[?search(@.a, '{}')]", "[ab]".repeat(k / 4)));
        cases.push(format!("$[?@.a == 1.{}1]", "0".repeat(k)));
        cases.push(format!("$[?@.a == 0.{}]", "9".repeat(k)));
        cases.push(format!("$[?@.a == 1e{}1]", "0".repeat(k)));
        cases.push(format!("$[?@.a == 1E-{}2]", "0".repeat(k)));
        cases.push(format!("$[{b}0{b}:{b}1{b}:{b}1{b}]", b = " ".repeat(k / 6)));
        cases.push(format!("$[?{b}@.a{b}=={b}1{b}]", b = "\n".repeat(k / 4)));
        cases.push(format!("$[?@.a{}==1]", "\t".repeat(k)));
        cases.push(format!("$[{}0]", "1,".repeat(half)));
        cases.push(format!("$[{}'a']", "'a',".repeat(k / 4)));
        cases.push(format!("$[{}?@.a]", "?@.b,".repeat(k / 5)));
        cases.push(format!("${}", ".a".repeat(half)));
        cases.push(format!("$[?@{} == 1]", "['a']".repeat(k / 5)));
        cases.push(format!("$[?@.a == 1{}]", " || @.a == 2".repeat(k / 12)));
        cases.push(format!("$[?@.a{}]", " && @.b".repeat(k / 7)));
        for s in cases {
            must_accept(&s, None, obs, "long-token box")?;
            n += 1;
        }
    }
    obs.boxes.push(json!({"box": "valid queries with one long token or run: shorthand / bracket names (ASCII, 2-, 3-, 4-byte characters, escapes, surrogate pairs, blanks), string literals, patterns, fractions, exponents with leading zeros, runs of blanks, selections, chains, singular queries, || and && chains",
                          "sizes": sizes, "queries": n, "exhaustive": true}));
    Ok(())
}

fn direct(case: &Value, obs: &mut Obs) -> Res {
    let s = case["query"].as_str().unwrap_or("");
    must_accept(s, None, obs, "regression file")
}

pub fn prop() -> Prop {
    Prop {
        id: ID,
        rule: "sentences derived from the RFC 9535 grammar: random ASTs (all selector kinds, unions, slices with every subset of parts, nested/parenthesised/negated filters, well-typed calls of the five RFC functions with every admissible argument form, all number forms, strings over a hostile alphabet) \
               rendered with random blanks (SP, HT, LF, CR) at every S position, both quote styles, every escape form (short, \\u upper/lower/mixed hex, surrogate pairs), dot and bracket notation, nesting up to 32; \
               a second, document-guided generator; mutants the recogniser still classifies valid. Each must parse and evaluate without Err on a scalar, an empty and a nested document. \
               Non-trivial: the sentence uses a non-empty blank, an escape, a non-ASCII name, a fraction/exponent, a union, a nested filter or a function call. Distinct by sentence.",
        assumptions: vec![
            "validity is by construction and double-checked by the independent recogniser (harness/src/recog.rs, self-tested on RFC examples); a disagreement between the two is reported as a harness inconsistency (exit 2), never as a violation",
            "random sentences: function-call nesting <= 3, bracket/parenthesis nesting <= 32; the deep-nesting box goes to 900 (beyond ~1000 the stack-exhaustion finding K6 of C08 applies)",
        ],
        subs: vec![
            Sub { name: "deep-nesting", kind: Kind::Exhaustive(deep_nesting) },
            Sub { name: "long-tokens", kind: Kind::Exhaustive(long_tokens) },
            Sub { name: "random-sentences", kind: Kind::Random { f: random_sentences, quick: 160_000, thorough: 3_200_000, len: 600 } },
            Sub { name: "random-doc-guided", kind: Kind::Random { f: random_doc_guided, quick: 64_000, thorough: 1_280_000, len: 500 } },
            Sub { name: "random-valid-after-rejected", kind: Kind::Random { f: random_valid_after_rejected, quick: 160_000, thorough: 3_200_000, len: 900 } },
            Sub { name: "random-mutants-still-valid", kind: Kind::Random { f: random_mutants_still_valid, quick: 160_000, thorough: 3_200_000, len: 600 } },
        ],
        direct: Some(direct),
        selftest: Some(crate::rfc::selftest),
        fuzz: Some(FuzzSpec { target: "accrej", runs: 100000, max_len: 200, tag: "C06", seed_corpus: Some("accrej") }),
        insertion_order_stage: false,
    }
}
