//! C09 — reference / reference_mut resolve a normalized path to exactly its node

use crate::ast::*;
use crate::engine::*;
use crate::gen::*;
use crate::json::*;
use crate::recog;
use crate::src::Src;
use jsonpath_rust::query::queryable::Queryable;
use jsonpath_rust::JsonPath;
use serde_json::{json, Value};

pub const ID: &str = "C09";

fn cfg() -> GenCfg {
    let mut c = GenCfg::plain();
    c.special_keys = true;
    c
}

const EXTRA_KEYS: &[&str] = &["/", "~", "~0", "~1", "a/b", "", "0", "1", "-", "-1", "00", "01", "~01", "/a", "a~1b", "2", "a][b", "][", "k][0][v", "a][0", "[0]", "$", "$[0]", "a.b", "*", "a,b", "a:b", "?@", "a b"];

fn gen_doc9(src: &mut Src) -> J {
    // the generic generator plus a layer of JSON-Pointer-hostile names
    let c = cfg();
    let mut d = gen_doc(src, &c);
    fn sprinkle(src: &mut Src, j: &mut J, depth: usize) {
        match j {
            J::Obj(m) => {
                if src.chance(1, 2) {
                    let k = src.pick(EXTRA_KEYS).to_string();
                    if !m.iter().any(|(k2, _)| *k2 == k) {
                        let v = if depth < 3 && src.bool() { J::Obj(vec![(src.pick(EXTRA_KEYS).to_string(), J::Int(1))]) } else { gen_scalar(src) };
                        m.push((k, v));
                    }
                }
                for (_, v) in m.iter_mut() {
                    sprinkle(src, v, depth + 1);
                }
            }
            J::Arr(a) => a.iter_mut().for_each(|v| sprinkle(src, v, depth + 1)),
            _ => {}
        }
    }
    sprinkle(src, &mut d, 0);
    d.sorted()
}

/// the member name `reference` looks up for a name step (model of the open finding K3 for C09):
/// the selector text with all enclosing single quotes trimmed, escapes not decoded
fn ref_key(text: &str) -> String {
    text.trim_matches('\'').to_string()
}

/// where the library is expected to land under the K3 model
fn k3_model(doc: &J, path: &str) -> Option<Loc> {
    let q = recog::parse_ast(path)?;
    let mut cur = doc;
    let mut loc = vec![];
    for s in &q.segs {
        match (&s.sels[0], cur) {
            (Sel::Name(n), J::Obj(m)) => {
                let key = ref_key(&n.text());
                let (k, v) = m.iter().find(|(k, _)| *k == key)?;
                loc.push(Step::Key(k.clone()));
                cur = v;
            }
            (Sel::Index(i), J::Arr(a)) => {
                let i = usize::try_from(*i).ok()?;
                cur = a.get(i)?;
                loc.push(Step::Idx(i));
            }
            _ => return None,
        }
    }
    Some(loc)
}

fn plain_name(s: &str) -> bool {
    !s.is_empty() && s.chars().all(|c| c.is_ascii_alphabetic() || c == '_')
}

/// `reference(path)` as a location (by address); Err for a panic or a foreign reference
fn lib_reference(v: &Value, map: &std::collections::HashMap<usize, Loc>, path: &str) -> Result<Option<Loc>, String> {
    let r = guarded(|| in_flight(path, v, || v.reference(path).map(|x| x as *const Value as usize)))?;
    match r {
        None => Ok(None),
        Some(addr) => match map.get(&addr) {
            Some(l) => Ok(Some(l.clone())),
            None => Err("reference() returned a value that is not a node of the document".into()),
        },
    }
}

fn attribute_ref(doc: &J, path: &str, expect: &Option<Loc>, got: &Option<Loc>, obs: &mut Obs, case: &dyn Fn() -> Value) -> Result<bool, Failure> {
    if got == expect {
        return Ok(true);
    }
    if open_quirks(ID) & 4 != 0 && k3_model(doc, path) == *got && k3_model(doc, path) != *expect {
        for id in finding_ids_for_bits(ID, 4) {
            obs.known(&id, || case());
        }
        return Ok(false);
    }
    let mut c = case();
    c["path"] = json!(path);
    c["expected_node"] = json!(expect.as_ref().map(|l| normalized_path(l)));
    c["reference_resolved_to"] = json!(got.as_ref().map(|l| normalized_path(l)));
    Err(Failure::new(
        if expect.is_some() { "reference(path) does not yield the node the normalized path denotes" } else { "reference(path) yields a node for a location that does not exist" },
        c,
    ))
}

/// every node location of a document: reference, and reference_mut + write + frame condition
fn check_all_locations(src: &mut Src, doc: &J, obs: &mut Obs) -> Res {
    let v = doc.to_value();
    let map = node_map(&v);
    let case = || json!({"doc": doc.to_value()});
    let locs = doc.all_locs();
    for (i, l) in locs.iter().enumerate() {
        let path = normalized_path(l);
        obs.eval(1);
        let nontrivial = l.len() >= 2 || l.iter().any(|s| matches!(s, Step::Key(k) if !plain_name(k)));
        if nontrivial {
            obs.nontrivial(&(path.as_str(), doc.text()), || json!({"doc": doc.to_value(), "path": path}));
        }
        let got = lib_reference(&v, &map, &path).map_err(|e| Failure::new(e, case()))?;
        let strict_ok = attribute_ref(doc, &path, &Some(l.clone()), &got, obs, &case)?;
        // write through reference_mut on a fresh copy; compare the whole document with the model
        if i % 3 == 0 || locs.len() <= 12 {
            let newv = if src.bool() { J::Str(format!("new-{}", i)) } else { J::Obj(vec![("new".into(), J::Arr(vec![J::Int(i as i64)]))]) };
            let mut copy = v.clone();
            obs.eval(1);
            let wrote = guarded(|| match copy.reference_mut(path.as_str()) {
                Some(r) => {
                    *r = newv.to_value();
                    true
                }
                None => false,
            })
            .map_err(|e| Failure::new(format!("reference_mut panicked: {}", e), case()))?;
            let mut model = doc.clone();
            let expect_loc: Option<Loc> = if strict_ok { Some(l.clone()) } else { k3_model(doc, &path) };
            let model_wrote = match &expect_loc {
                Some(el) => {
                    if let Some(t) = model.get_loc_mut(el) {
                        *t = newv.clone();
                        true
                    } else {
                        false
                    }
                }
                None => false,
            };
            let after = J::from_value(&copy);
            if wrote != model_wrote || after != model.sorted() {
                let mut c = case();
                c["path"] = json!(path);
                c["written_value"] = newv.to_value();
                c["document_after"] = copy.clone();
                c["expected_after"] = model.to_value();
                return Err(Failure::new(
                    "writing through reference_mut(path) does not change exactly the node the path denotes (frame condition)",
                    c,
                ));
            }
        }
    }
    Ok(())
}

/// locations that do not exist, derived from real ones
fn check_missing(src: &mut Src, doc: &J, obs: &mut Obs) -> Res {
    let v = doc.to_value();
    let map = node_map(&v);
    let case = || json!({"doc": doc.to_value()});
    let locs = doc.all_locs();
    let n = 6.min(locs.len() * 2);
    for _ in 0..n {
        let base = src.pick(&locs).clone();
        let node = doc.get_loc(&base).unwrap_or(doc);
        let mut l = base.clone();
        let label;
        // a path that is not the spelling of any `Loc` (negative index below the start of the array)
        let mut path_text: Option<String> = None;
        match node {
            J::Arr(a) => match src.below(5) {
                4 => {
                    // counted from the end the index still falls outside: no reading of the path gives
                    // it a location
                    let i = -(a.len() as i64) - 1 - src.below(3) as i64;
                    path_text = Some(format!("{}[{}]", normalized_path(&base), i));
                    l.push(Step::Idx(usize::MAX));
                    label = "negative-index-below-start";
                }
                0 => {
                    l.push(Step::Idx(a.len()));
                    label = "index=len";
                }
                1 => {
                    l.push(Step::Idx(a.len() + 1 + src.below(3)));
                    label = "index>len";
                }
                2 => {
                    // a numeric *name* on an array must not be conflated with the index
                    l.push(Step::Key(src.below(a.len().max(1)).to_string()));
                    label = "numeric-name-on-array";
                }
                _ => {
                    l.push(Step::Key(src.pick(&["a", "", "-", "length"]).to_string()));
                    label = "name-on-array";
                }
            },
            J::Obj(m) => match src.below(3) {
                0 => {
                    let k = loop {
                        let k = format!("{}{}", src.pick(&["zz", "a", "0", "~", "/"]), src.below(50));
                        if !m.iter().any(|(k2, _)| *k2 == k) {
                            break k;
                        }
                    };
                    l.push(Step::Key(k));
                    label = "absent-name";
                }
                1 => {
                    // an *index* on an object must not be conflated with a numeric name
                    l.push(Step::Idx(src.below(3)));
                    label = "index-on-object";
                }
                _ => {
                    // JSON-Pointer style confusions: "a/b" must not reach b inside a; "~1" must not reach "/"
                    let cands: Vec<String> = m
                        .iter()
                        .flat_map(|(k, v)| match v {
                            J::Obj(m2) => m2.iter().flat_map(|(k2, _)| vec![format!("{}/{}", k, k2), format!("{}][{}", k, k2), format!("{}.{}", k, k2), format!("{}']['{}", k, k2)]).collect::<Vec<_>>(),
                            J::Arr(a2) if !a2.is_empty() => vec![format!("{}/0", k), format!("{}][0", k), format!("{}[0]", k)],
                            _ => vec![],
                        })
                        .chain(m.iter().filter(|(k, _)| k.contains('/') || k.contains('~')).map(|(k, _)| k.replace('~', "~0").replace('/', "~1")))
                        .filter(|k| !m.iter().any(|(k2, _)| k2 == k))
                        .collect();
                    if cands.is_empty() {
                        continue;
                    }
                    l.push(Step::Key(src.pick(&cands).clone()));
                    label = "pointer-syntax-confusion";
                }
            },
            _ => {
                if src.bool() {
                    l.push(Step::Idx(0));
                } else {
                    l.push(Step::Key("a".into()));
                }
                label = "step-below-scalar";
            }
        }
        if doc.get_loc(&l).is_some() {
            continue;
        }
        let path = path_text.unwrap_or_else(|| normalized_path(&l));
        obs.label(label);
        obs.eval(2);
        obs.nontrivial(&(path.as_str(), doc.text()), || json!({"doc": doc.to_value(), "missing_path": path, "kind": label}));
        let got = lib_reference(&v, &map, &path).map_err(|e| Failure::new(e, case()))?;
        attribute_ref(doc, &path, &None, &got, obs, &case)?;
        // reference_mut must be None too, and the document unchanged
        let mut copy = v.clone();
        let some = guarded(|| match copy.reference_mut(path.as_str()) {
            Some(r) => {
                *r = json!("WRITTEN");
                true
            }
            None => false,
        })
        .map_err(|e| Failure::new(format!("reference_mut panicked: {}", e), case()))?;
        if some && got.is_none() || copy != v && got.is_none() {
            let mut c = case();
            c["missing_path"] = json!(path);
            c["document_after"] = copy;
            return Err(Failure::new("reference_mut(path) yields a handle for a location that does not exist (and a write through it changed the document)", c));
        }
    }
    Ok(())
}

fn random_locations(src: &mut Src, obs: &mut Obs) -> Res {
    let doc = gen_doc9(src);
    check_all_locations(src, &doc, obs)?;
    check_missing(src, &doc, obs)
}

/// history: one query_only_path, then a sequence of writes through the returned paths
fn random_history(src: &mut Src, obs: &mut Obs) -> Res {
    let doc = gen_doc9(src);
    let v0 = doc.to_value();
    let qtext = *src.pick(&["$..*", "$.*", "$..[0]", "$[*][*]", "$..*[?@]", "$..[?@ != 'x']", "$..[::-2]", "$..[::-1]", "$..[-1]", "$..[-2,0]", "$[*][5::-3]", "$..[1::2]", "$..[?@][-1]"]);
    obs.eval(1);
    let paths = match guarded(|| v0.query_only_path(qtext)) {
        Ok(Ok(p)) => p,
        other => return Err(Failure::new(format!("query_only_path failed: {:?}", other.map(|r| r.map_err(|e| e.to_string()))), json!({"doc": v0, "query": qtext}))),
    };
    // the locations those paths were reported for, by running the same query with values
    let map0 = node_map(&v0);
    let locs: Vec<Option<Loc>> = match crate::libx::query_with_path(&v0, &map0, qtext) {
        Ok(n) => n.iter().map(|x| x.loc.clone()).collect(),
        Err(e) => return Err(Failure::new(format!("query failed: {:?}", e), json!({"doc": v0}))),
    };
    if paths.is_empty() || paths.len() != locs.len() {
        return Ok(());
    }
    let mut live = v0.clone();
    let mut model = doc.clone();
    let steps = 1 + src.below(6);
    let mut history = vec![];
    for s in 0..steps {
        let i = src.below(paths.len());
        let path = &paths[i];
        let loc = match &locs[i] {
            Some(l) => l.clone(),
            None => continue,
        };
        let newv = match src.below(3) {
            0 => J::Int(1000 + s as i64),
            1 => J::Arr(vec![J::Str(format!("w{}", s))]),
            _ => J::Obj(vec![("w".into(), J::Int(s as i64))]),
        };
        history.push(json!({"path": path, "value": newv.to_value()}));
        obs.eval(1);
        if s == 0 {
            // (these queries contain no name selectors, so every step comes from the document and
            // the open finding about selector text in paths does not apply)
            for (p, l) in paths.iter().zip(&locs) {
                if let Some(l) = l {
                    if *p != normalized_path(l) {
                        return Err(Failure::new(
                            "a path returned by a query does not lead back to the node it was reported for (it is not that node's location)",
                            json!({"doc": v0, "query": qtext, "reported_path": p, "node": normalized_path(l)}),
                        ));
                    }
                }
            }
        }
        // where the path leads in the *current* model (earlier writes may have removed the location)
        let strict_target = if model.get_loc(&loc).is_some() && normalized_path(&loc) == *path { Some(loc.clone()) } else { None };
        let k3_target = k3_model(&model, path);
        let wrote = guarded(|| match live.reference_mut(path.as_str()) {
            Some(r) => {
                *r = newv.to_value();
                true
            }
            None => false,
        })
        .map_err(|e| Failure::new(format!("reference_mut panicked: {}", e), json!({"doc": v0, "history": history})))?;
        let mut m1 = model.clone();
        let w1 = match &strict_target {
            Some(l) => {
                if let Some(t) = m1.get_loc_mut(l) {
                    *t = newv.clone();
                }
                true
            }
            None => false,
        };
        let after = J::from_value(&live);
        if wrote == w1 && after == m1.sorted() {
            model = m1;
            continue;
        }
        // K3: the path of a name that needs an escape leads elsewhere (or nowhere)
        let mut m2 = model.clone();
        let w2 = match &k3_target {
            Some(l) => {
                if let Some(t) = m2.get_loc_mut(l) {
                    *t = newv.clone();
                }
                true
            }
            None => false,
        };
        if open_quirks(ID) & 4 != 0 && wrote == w2 && after == m2.sorted() && path.contains('\\') {
            for id in finding_ids_for_bits(ID, 4) {
                obs.known(&id, || json!({"doc": v0, "history": history}));
            }
            model = m2;
            continue;
        }
        return Err(Failure::new(
            "a sequence of writes through paths returned by one query diverges from the model (read/update of the reported node)",
            json!({"doc": v0, "query": qtext, "history": history, "document_after": live, "expected_after": m1.to_value()}),
        ));
    }
    obs.label("history");
    obs.nontrivial(&(doc.text(), history.len(), qtext), || json!({"doc": v0, "query": qtext, "history": history}));
    Ok(())
}

fn direct(case: &Value, obs: &mut Obs) -> Res {
    // {"doc": ..., "path": "...", "expect": "<normalized path of the node>" | null}
    let doc = J::from_value(&case["doc"]);
    let v = doc.to_value();
    let map = node_map(&v);
    let path = case["path"].as_str().unwrap_or("$");
    let expect: Option<Loc> = match case["expect"].as_str() {
        Some(p) => doc.all_locs().into_iter().find(|l| normalized_path(l) == p),
        None => None,
    };
    obs.eval(1);
    let got = lib_reference(&v, &map, path).map_err(|e| Failure::new(e, case.clone()))?;
    attribute_ref(&doc, path, &expect, &got, obs, &|| case.clone()).map(|_| ())
}

pub fn prop() -> Prop {
    Prop {
        id: ID,
        rule: "documents whose member names include /, ~, ~0, ~1, empty, numeric and escape-needing names, depth <= 4; for EVERY node location: reference(normalized path) must be that node by address, and a write through reference_mut must change exactly that node (whole-document comparison with a model); \
               non-existent locations derived from real ones (index = len / > len, absent name, name on array incl. numeric names, index on object, JSON-Pointer confusions such as a/b and ~1, steps below scalars, a negative index below the start of the array) must yield None and leave the document unchanged; \
               histories: one query_only_path, then up to 6 writes through the returned paths (a write may replace a container and make later paths dangling), compared with a model after every step. \
               Non-trivial: location depth >= 2, or a non-plain name, or a non-existent location, or a history. Distinct by (path, document).",
        assumptions: vec![
            "normalized_path() of the harness (self-tested); the model of a write is replacement of the subtree at the location",
        ],
        subs: vec![
            Sub { name: "random-locations", kind: Kind::Random { f: random_locations, quick: 60_000, thorough: 1_200_000, len: 500 } },
            Sub { name: "random-history", kind: Kind::Random { f: random_history, quick: 60_000, thorough: 1_200_000, len: 500 } },
        ],
        direct: Some(direct),
        selftest: Some(crate::rfc::selftest),
        fuzz: None,
        insertion_order_stage: false,
    }
}
