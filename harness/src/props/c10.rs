//! C10 — length, count, value, match, search

use crate::ast::*;
use crate::engine::*;
use crate::gen::*;
use crate::json::*;
use crate::libx::{self, LibErr};
use crate::oracle::{self, Quirks};
use crate::regexo;
use crate::src::Src;
use serde_json::{json, Value};

pub const ID: &str = "C10";

fn nm(s: &str) -> StrLit {
    StrLit::plain(s)
}
fn nseg(s: &str) -> Seg {
    Seg { desc: false, sels: vec![Sel::Name(nm(s))], dot: true }
}
fn rel(segs: Vec<Seg>) -> Query {
    Query { abs: false, segs }
}
fn filt(e: Expr) -> Seg {
    Seg { desc: false, sels: vec![Sel::Filter(e)], dot: false }
}

/// run `q` and compare the kept locations (in order) with the reference evaluator, attributing to the
/// open findings of C10 when a quirk model explains the difference exactly
fn check_kept(q: &Query, doc: &J, obs: &mut Obs, nontrivial: bool, extra: impl Fn() -> Value) -> Res {
    let text = render_plain(q);
    let v = doc.to_value();
    let map = node_map(&v);
    obs.eval(1);
    let case = || {
        let mut c = json!({"query": text, "doc": doc.to_value()});
        let e = extra();
        if !e.is_null() {
            c["detail"] = e;
        }
        c
    };
    if nontrivial {
        obs.nontrivial(&(text.as_str(), doc.text()), || case());
    }
    let got: Vec<Option<Loc>> = match libx::query_with_path(&v, &map, &text) {
        Ok(n) => n.iter().map(|x| x.loc.clone()).collect(),
        Err(LibErr::Err(e)) => return Err(Failure::new(format!("valid query rejected: {}", e), case())),
        Err(LibErr::Panic(p)) => return Err(Failure::new(format!("panic: {}", p), case())),
    };
    let f = |k: &Quirks| -> Vec<Option<Loc>> { oracle::eval(q, doc, k).iter().map(|n| Some(n.loc())).collect() };
    regexo::take_gave_up();
    let att = attribute(ID, &got, f);
    if regexo::take_gave_up() {
        // the harness' naive matcher exceeded its step budget on this pattern/subject: no verdict
        obs.not_judged("reference matcher step budget exceeded");
        return Ok(());
    }
    match att {
        Attribution::Strict => Ok(()),
        Attribution::Known(bits) => {
            for id in finding_ids_for_bits(ID, bits) {
                obs.known(&id, || case());
            }
            Ok(())
        }
        Attribution::Unexplained => {
            // class signature: the pattern text the library's engine receives is outside the harness dialect
            if let Some(fi) = open_class(ID, "REGEX_MANGLE_UNMODELLED") {
                if mangled_outside_dialect(q, doc) {
                    obs.known(&fi.id, || case());
                    return Ok(());
                }
            }
            let mut c = case();
            c["expected_kept"] = json!(f(&Quirks::strict()).iter().map(|l| normalized_path(l.as_ref().unwrap())).collect::<Vec<_>>());
            c["library_kept"] = json!(got.iter().map(|l| l.as_ref().map(|l| normalized_path(l))).collect::<Vec<_>>());
            Err(Failure::new("function extension result differs from RFC 9535 2.4", c))
        }
    }
}

/// does some match/search pattern of `q` reach the engine as a text the harness cannot model?
fn mangled_outside_dialect(q: &Query, doc: &J) -> bool {
    let mut hit = false;
    let mut pats: Vec<String> = vec![];
    fn walk_expr(e: &Expr, out: &mut Vec<Arg>) {
        match e {
            Expr::Or(xs) | Expr::And(xs) => xs.iter().for_each(|x| walk_expr(x, out)),
            Expr::Paren(_, x) => walk_expr(x, out),
            Expr::Test(_, t) => {
                if let TestE::F(f) = t.as_ref() {
                    if (f.name == "match" || f.name == "search") && f.args.len() == 2 {
                        out.push(f.args[1].clone());
                    }
                }
            }
            _ => {}
        }
    }
    let mut args = vec![];
    for s in &q.segs {
        for sel in &s.sels {
            if let Sel::Filter(e) = sel {
                walk_expr(e, &mut args);
            }
        }
    }
    for a in args {
        match a {
            Arg::Lit(Lit::Str(s)) => {
                // a quotation mark written as an escape reaches the engine with its backslash (K4); `\'` is no
                // escape of the harness' dialect, the engine reads it as the quotation mark
                if s.raw.contains("\\'") || s.raw.contains("\\\"") {
                    hit = true;
                }
                pats.push(s.raw.clone())
            }
            Arg::Q(_) => {
                // patterns delivered through the document: every string of the document is a candidate
                fn strings(j: &J, out: &mut Vec<String>) {
                    match j {
                        J::Str(s) => out.push(s.clone()),
                        J::Arr(a) => a.iter().for_each(|x| strings(x, out)),
                        J::Obj(m) => m.iter().for_each(|x| strings(&x.1, out)),
                        _ => {}
                    }
                }
                strings(doc, &mut pats);
            }
            _ => {}
        }
    }
    for p in pats {
        let eff = oracle::mangle_pattern(&p);
        if eff != p && regexo::parse(&eff).is_err() {
            hit = true;
        }
    }
    hit
}

// ------------------------------------------------------------------------------------------------

fn length_values() -> Vec<(&'static str, Option<J>)> {
    let s = |x: &str| Some(J::Str(x.to_string()));
    vec![
        ("absent", None),
        ("null", Some(J::Null)),
        ("true", Some(J::Bool(true))),
        ("number", Some(J::Int(3))),
        ("float", Some(J::Float(2.5))),
        ("empty string", s("")),
        ("ascii", s("abc")),
        ("latin", s("\u{e9}\u{e9}")),
        ("combining", s("e\u{301}")),
        ("astral", s("\u{1d11e}")),
        ("astral x3", s("\u{1d11e}a\u{1f600}")),
        ("bmp+astral", s("\u{263a}\u{10000}\u{ffff}x")),
        ("empty array", Some(J::Arr(vec![]))),
        ("array 1", Some(J::Arr(vec![J::Arr(vec![J::Int(1), J::Int(2)])]))),
        ("array 3", Some(J::Arr(vec![J::Int(1), J::Null, J::Str("abcd".into())]))),
        ("array 5", Some(J::Arr((0..5).map(J::Int).collect()))),
        ("empty object", Some(J::Obj(vec![]))),
        ("object 2", Some(J::Obj(vec![("a".into(), J::Arr(vec![J::Int(1), J::Int(2), J::Int(3)])), ("b".into(), J::Null)]))),
        ("object 4", Some(J::Obj((0..4).map(|i| (format!("k{}", i), J::Int(i))).collect()))),
    ]
}

fn length_box(obs: &mut Obs, _thorough: bool) -> Res {
    let mut n = 0;
    for (what, val) in length_values() {
        let mut m = vec![];
        if let Some(v) = &val {
            m.push(("v".to_string(), v.clone()));
        }
        let doc = J::Arr(vec![J::Obj(m)]);
        for k in 0..8i64 {
            for op in [Op::Eq, Op::Lt, Op::Ne, Op::Ge] {
                for form in 0..3 {
                    let arg = match form {
                        0 => Arg::Q(rel(vec![nseg("v")])),
                        1 => Arg::F(Func { name: "value".into(), args: vec![Arg::Q(rel(vec![nseg("v")]))] }),
                        _ => Arg::F(Func { name: "value".into(), args: vec![Arg::Q(rel(vec![Seg { desc: false, sels: vec![Sel::Wild], dot: true }]))] }),
                    };
                    let e = Expr::Cmp(
                        Box::new(Cmpable::F(Func { name: "length".into(), args: vec![arg] })),
                        op,
                        Box::new(Cmpable::Lit(Lit::Num(num_lit_int(k)))),
                    );
                    let q = Query { abs: true, segs: vec![filt(e)] };
                    check_kept(&q, &doc, obs, true, || json!({"argument": what}))?;
                    n += 1;
                    // the same on a Queryable type other than Value (no inherent string methods to lean on)
                    {
                        use jsonpath_rust::JsonPath;
                        let text = render_plain(&q);
                        let v1 = crate::vq::V1::from_j(&doc);
                        let exp = oracle::eval(&q, &doc, &Quirks::strict()).len();
                        obs.eval(1);
                        match guarded(|| v1.query_only_path(&text)) {
                            Ok(Ok(r)) if r.len() == exp => {}
                            other => {
                                return Err(Failure::new(
                                    "length() differs from RFC 9535 on a second Queryable type",
                                    json!({"query": text, "doc": doc.to_value(), "argument": what, "expected_kept": exp, "library": format!("{:?}", other.map(|r| r.map_err(|e| e.to_string())))}),
                                ))
                            }
                        }
                    }
                }
            }
        }
        // length of a literal / of a root value
        if let Some(J::Str(sv)) = &val {
            if !needs_escape_anyway(sv) {
                for k in 0..6i64 {
                    let e = Expr::Cmp(
                        Box::new(Cmpable::F(Func { name: "length".into(), args: vec![Arg::Lit(Lit::Str(StrLit::plain(sv)))] })),
                        Op::Eq,
                        Box::new(Cmpable::Lit(Lit::Num(num_lit_int(k)))),
                    );
                    let q = Query { abs: true, segs: vec![filt(e)] };
                    check_kept(&q, &doc, obs, true, || json!({"argument": "string literal"}))?;
                    n += 1;
                }
            }
        }
    }
    obs.boxes.push(json!({"box": "length(x) op n for every kind of argument (strings with astral/combining characters, arrays and objects of size 0-5, numbers, booleans, null, absent) x n in 0..7 x {==,<,!=,>=} x argument forms", "queries": n, "exhaustive": true}));
    Ok(())
}

/// count()/value() over generated argument queries, and function results inside larger expressions
fn random_count_value(src: &mut Src, obs: &mut Obs) -> Res {
    let mut cfg = GenCfg::plain();
    cfg.filter_depth = 1;
    cfg.union_weight = 25;
    let doc = gen_doc(src, &cfg).sorted();
    // the filter is applied to the root's children; guide the argument query by one of them
    let rootn = oracle::Node { steps: vec![], v: &doc };
    let kids = oracle::eval_filter_query(&rel(vec![Seg { desc: false, sels: vec![Sel::Wild], dot: true }]), &rootn, &doc, &Quirks::strict());
    let kid = if kids.is_empty() { None } else { Some(kids[src.below(kids.len())].clone()) };
    let argq = gen_filter_query(src, &doc, kid.as_ref(), &cfg, 1);
    let n_for_kid = kid.as_ref().map(|k| oracle::eval_filter_query(&argq, k, &doc, &Quirks::strict()).len()).unwrap_or(0);
    let e = match src.below(4) {
        0 | 1 => {
            obs.label("count");
            let k = (n_for_kid as i64 + src.range(-1, 1)).max(0);
            // the number the result is compared with in any of its spellings (100, 1e2, 10e+01, ...)
            let k_lit = if src.chance(1, 3) { crate::spell::re_num(src, &num_lit_int(k)) } else { num_lit_int(k) };
            Expr::Cmp(
                Box::new(Cmpable::F(Func { name: "count".into(), args: vec![Arg::Q(argq.clone())] })),
                *src.pick(&Op::ALL),
                Box::new(Cmpable::Lit(Lit::Num(k_lit))),
            )
        }
        2 => {
            obs.label("value");
            let vals: Vec<J> = kid.as_ref().map(|k| oracle::eval_filter_query(&argq, k, &doc, &Quirks::strict()).iter().map(|n| n.v.clone()).collect()).unwrap_or_default();
            let lit = vals.first().and_then(|v| lit_of_value(src, v, &cfg)).unwrap_or_else(|| gen_lit(src, &cfg));
            Expr::Cmp(
                Box::new(Cmpable::F(Func { name: "value".into(), args: vec![Arg::Q(argq.clone())] })),
                *src.pick(&[Op::Eq, Op::Ne, Op::Le]),
                Box::new(Cmpable::Lit(lit)),
            )
        }
        _ => {
            obs.label("functions-in-expressions");
            // length(@.a) < count(@.*), negations, conjunctions
            let mut c2 = cfg.clone();
            c2.funcs = true;
            gen_expr(src, &doc, kid.as_ref(), &c2, 1, 2)
        }
    };
    match n_for_kid {
        0 => obs.label("argument-selects-0"),
        1 => obs.label("argument-selects-1"),
        _ => obs.label("argument-selects-many"),
    }
    let q = Query { abs: true, segs: vec![filt(e)] };
    check_kept(&q, &doc, obs, true, || Value::Null)
}

fn subject_value(src: &mut Src, re: &regexo::Re) -> J {
    if src.chance(1, 12) {
        // non-string subjects
        return src.pick(&[J::Null, J::Int(1), J::Bool(true), J::Arr(vec![J::Str("a".into())]), J::Obj(vec![])]).clone();
    }
    J::Str(regexo::gen_subject(re, src))
}

fn random_regex(src: &mut Src, obs: &mut Obs) -> Res {
    regexo::allow_quotes();
    let re = regexo::gen_pattern(src);
    let pat = regexo::render(&re);
    // harness self-consistency: the renderer and the parser agree
    match regexo::parse(&pat) {
        Ok(r2) if regexo::render(&r2) == pat => {}
        other => return Err(Failure::new("harness inconsistency: regex render/parse round trip", json!({"pattern": pat, "parsed": format!("{:?}", other)}))),
    }
    let nsub = 2 + src.below(5);
    let mut elems = vec![];
    let mut full_ne_find = false;
    for _ in 0..nsub {
        let s = subject_value(src, &re);
        if let J::Str(x) = &s {
            if regexo::full(&re, x, false) != regexo::find(&re, x, false) {
                full_ne_find = true;
            }
        }
        let mut m = vec![("s".to_string(), s), ("p".to_string(), J::Str(pat.clone()))];
        if src.chance(1, 10) {
            m.remove(0);
        }
        elems.push(J::Obj(m));
    }
    let doc = J::Obj(vec![("e".to_string(), J::Arr(elems)), ("p".to_string(), J::Str(pat.clone()))]).sorted();
    let search = src.bool();
    let delivery = src.below(4);
    let parg = match delivery {
        0 | 1 => {
            if needs_escape_anyway(&pat) || pat.contains('\\') {
                // a literal needs `\\` for every backslash: that spelling is exercised, the library's
                // handling of it is the K4/K5 region (counted through attribution if it ever differs)
                obs.label("pattern-literal-with-escapes");
            } else {
                obs.label("pattern-literal-plain");
            }
            Arg::Lit(Lit::Str(spell_str(src, &pat, false)))
        }
        2 => {
            obs.label("pattern-from-current-node");
            Arg::Q(rel(vec![nseg("p")]))
        }
        _ => {
            obs.label("pattern-from-root");
            Arg::Q(Query { abs: true, segs: vec![nseg("p")] })
        }
    };
    let f = Func { name: if search { "search" } else { "match" }.into(), args: vec![Arg::Q(rel(vec![nseg("s")])), parg] };
    let neg = src.chance(1, 5);
    let e = Expr::Test(neg, Box::new(TestE::F(f)));
    let q = Query { abs: true, segs: vec![nseg("e"), filt(e)] };
    if full_ne_find {
        obs.label("full-vs-substring-differ");
    }
    check_kept(&q, &doc, obs, true, || json!({"pattern": pat}))
}

/// invalid patterns, non-string patterns, subjects as literals
fn random_regex_edges(src: &mut Src, obs: &mut Obs) -> Res {
    regexo::allow_quotes();
    let search = src.bool();
    let name = if search { "search" } else { "match" };
    let subj = J::Str(src.pick(&["", "a", "ab", "(", "a(", "*a", "abc"]).to_string());
    let (pv, label): (J, &str) = match src.below(3) {
        0 => (J::Str(src.pick(regexo::INVALID_PATTERNS).to_string()), "invalid-pattern"),
        1 => (src.pick(&[J::Null, J::Int(1), J::Bool(false), J::Arr(vec![J::Str("a".into())]), J::Obj(vec![])]).clone(), "non-string-pattern"),
        _ => (J::Str(src.pick(&["", "a", "a|b", "ab|", "a*", ".*"]).to_string()), "simple-pattern"),
    };
    obs.label(label);
    let doc = J::Arr(vec![J::Obj(vec![("s".into(), subj.clone()), ("p".into(), pv.clone())])]);
    let parg = match (&pv, src.bool()) {
        (J::Str(p), true) if !p.contains('\\') => Arg::Lit(Lit::Str(spell_str(src, p, false))),
        (J::Int(i), true) => Arg::Lit(Lit::Num(num_lit_int(*i))),
        (J::Null, true) => Arg::Lit(Lit::Null),
        _ => Arg::Q(rel(vec![nseg("p")])),
    };
    let sarg = match (&subj, src.chance(1, 3)) {
        (J::Str(s), true) => Arg::Lit(Lit::Str(spell_str(src, s, false))),
        _ => Arg::Q(rel(vec![nseg("s")])),
    };
    let f = Func { name: name.into(), args: vec![sarg, parg] };
    let e = Expr::Test(src.chance(1, 4), Box::new(TestE::F(f)));
    let q = Query { abs: true, segs: vec![filt(e)] };
    check_kept(&q, &doc, obs, true, || Value::Null)
}

/// the regions of the open findings K4/K5: patterns with escaped backslashes or quotes at the ends,
/// subjects with CR, subjects given as literals with escapes
fn random_regex_known_regions(src: &mut Src, obs: &mut Obs) -> Res {
    regexo::allow_quotes();
    let search = src.bool();
    let name = if search { "search" } else { "match" };
    let (pat, subj): (String, String) = match src.below(4) {
        0 => {
            obs.label("dot-vs-CR");
            (src.pick(&[".", "a.b", ".*", "a.", "[^a]"]).to_string(), src.pick(&["\r", "a\rb", "a\r", "\n", "a\nb", "axb"]).to_string())
        }
        1 => {
            obs.label("escaped-backslash-in-pattern");
            (src.pick(&["\\\\", "a\\\\b", "\\\\.", "\\\\\\\\"]).to_string(), src.pick(&["\\", "a\\b", "\\x", "\\\\", "."]).to_string())
        }
        2 => {
            obs.label("quote-at-pattern-end");
            (src.pick(&["'a'", "\"a", "a'", "'", "a\"b"]).to_string(), src.pick(&["a", "'a'", "\"a", "a'", "'"]).to_string())
        }
        _ => {
            obs.label("subject-literal-with-escape");
            (src.pick(&["a.b", "a\\nb", "...", "a\\tb"]).to_string(), src.pick(&["a\nb", "a\tb", "axb"]).to_string())
        }
    };
    let doc = J::Arr(vec![J::Obj(vec![("s".into(), J::Str(subj.clone())), ("p".into(), J::Str(pat.clone()))])]);
    let parg = if src.bool() { Arg::Lit(Lit::Str(spell_str(src, &pat, false))) } else { Arg::Q(rel(vec![nseg("p")])) };
    let sarg = if src.chance(1, 3) { Arg::Lit(Lit::Str(spell_str(src, &subj, false))) } else { Arg::Q(rel(vec![nseg("s")])) };
    let f = Func { name: name.into(), args: vec![sarg, parg] };
    let q = Query { abs: true, segs: vec![filt(Expr::Test(false, Box::new(TestE::F(f))))] };
    check_kept(&q, &doc, obs, true, || json!({"pattern": pat, "subject": subj}))
}

fn direct(case: &Value, obs: &mut Obs) -> Res {
    let (q, _text, doc) = crate::props::c01::parse_direct(case)?;
    check_kept(&q, &doc, obs, true, || Value::Null)
}

pub fn prop() -> Prop {
    Prop {
        id: ID,
        rule: "length(): exhaustive box over every kind of argument x n; count()/value(): random argument queries selecting 0, 1, many nodes, results used in comparisons (against every spelling of the number), negations, conjunctions; \
               match()/search(): generated pattern ASTs (literals incl. non-ASCII, ., classes, negated classes, ranges, groups, top-level and nested alternation, ? * + {m,n}, explicit anchors, \\p{..}, the metacharacters as escaped literals and bare class members) \
               with subjects built from the pattern (exact, prefixed, suffixed, infixed, mutated, unrelated, non-string), patterns delivered as literals and through document nodes; invalid and non-string patterns. \
               The oracle is the harness' own backtracking matcher over the pattern AST. Non-trivial: every generated case (each has a function call whose argument or pattern is document-dependent). Distinct by (query text, document).",
        assumptions: vec![
            "regular-expression dialect: the I-Regexp constructs listed above plus ^ and $ as anchors (the property names anchors; the library's engine treats them so); characters restricted to an alphabet whose Unicode categories are known by hand",
            "`.` does not match LF or CR (RFC 9485); invalid patterns are those invalid both in I-Regexp and for the library's engine",
        ],
        subs: vec![
            Sub { name: "length-box", kind: Kind::Exhaustive(length_box) },
            Sub { name: "random-count-value", kind: Kind::Random { f: random_count_value, quick: 96_000, thorough: 1_920_000, len: 400 } },
            Sub { name: "random-regex", kind: Kind::Random { f: random_regex, quick: 96_000, thorough: 1_920_000, len: 300 } },
            Sub { name: "random-regex-edges", kind: Kind::Random { f: random_regex_edges, quick: 16_000, thorough: 320_000, len: 64 } },
            Sub { name: "random-regex-known-regions", kind: Kind::Random { f: random_regex_known_regions, quick: 16_000, thorough: 320_000, len: 64 } },
        ],
        direct: Some(direct),
        selftest: Some(crate::rfc::selftest),
        fuzz: None,
        insertion_order_stage: false,
    }
}
