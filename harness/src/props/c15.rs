//! C15 — evaluation depends only on the `Queryable` view of the data

use crate::ast::*;
use crate::engine::*;
use crate::gen::*;
use crate::json::*;
use crate::oracle::{self, Quirks};
use crate::src::Src;
use crate::vq::{V1, V2, V3, V4};
use jsonpath_rust::JsonPath;
use serde_json::{json, Value};

pub const ID: &str = "C15";

type Rows = Vec<(String, J)>;

fn run_value(v: &Value, q: &str) -> Result<Rows, String> {
    match guarded(|| in_flight(q, v, || v.query_with_path(q))) {
        Ok(Ok(r)) => Ok(r.into_iter().map(|x| (x.clone().path(), J::from_value(x.val()))).collect()),
        Ok(Err(e)) => Err(format!("Err({})", e.to_string().lines().next().unwrap_or(""))),
        Err(p) => Err(format!("panic: {}", p)),
    }
}
fn run_v1(v: &V1, q: &str) -> Result<(Rows, Vec<Option<Loc>>), String> {
    let map = v.node_map();
    match guarded(|| v.query_with_path(q)) {
        Ok(Ok(r)) => Ok((
            r.iter().map(|x| (x.clone().path(), x.clone().val().to_j())).collect(),
            r.iter().map(|x| map.get(&(x.clone().val() as *const V1 as usize)).cloned()).collect(),
        )),
        Ok(Err(e)) => Err(format!("Err({})", e.to_string().lines().next().unwrap_or(""))),
        Err(p) => Err(format!("panic: {}", p)),
    }
}
fn run_v2(v: &V2, q: &str) -> Result<Rows, String> {
    match guarded(|| v.query_with_path(q)) {
        Ok(Ok(r)) => Ok(r.into_iter().map(|x| (x.clone().path(), x.val().to_j())).collect()),
        Ok(Err(e)) => Err(format!("Err({})", e.to_string().lines().next().unwrap_or(""))),
        Err(p) => Err(format!("panic: {}", p)),
    }
}

fn rows_equal(a: &Rows, b: &Rows) -> bool {
    a.len() == b.len() && a.iter().zip(b).all(|((p1, v1), (p2, v2))| p1 == p2 && eq_json(v1, v2))
}

fn show(r: &Result<Rows, String>) -> Value {
    match r {
        Ok(rows) => json!(rows.iter().map(|(p, v)| json!([p, v.to_value()])).collect::<Vec<_>>()),
        Err(e) => json!(e),
    }
}

fn interesting(q: &Query) -> bool {
    let mut hit = false;
    for_each_seg(q, &mut |s, d| {
        if d > 0 {
            hit = true;
        }
        for sel in &s.sels {
            if matches!(sel, Sel::Filter(_) | Sel::Wild) {
                hit = true;
            }
        }
    });
    hit
}

fn cfg15() -> GenCfg {
    let mut cfg = GenCfg::plain();
    cfg.regex = true;
    cfg.funcs = true;
    cfg
}

/// same member order as the Value: results must be identical, position by position
fn random_diff(src: &mut Src, obs: &mut Obs) -> Res {
    let mut cfg = cfg15();
    // names that start and end with a quote, contain backslashes, ...: the comparison is differential,
    // so the open findings about escapes cancel
    cfg.special_keys = src.bool();
    // V2 keeps its members sorted by name: the document is sorted explicitly, so that the Value has the
    // same member order also when serde_json keeps insertion order (`preserve_order`)
    let doc = gen_doc(src, &cfg).sorted_by_name();
    let q = gen_query(src, &doc, &cfg);
    let blanks = src.chance(1, 4);
    let text = render_with_blanks(src, &q, blanks);
    let v = doc.to_value();
    let v1 = V1::from_j(&doc);
    let v2 = V2::from_j(&doc);
    obs.eval(3);
    let rv = run_value(&v, &text);
    let r1 = run_v1(&v1, &text).map(|x| x.0);
    let r2 = run_v2(&v2, &text);
    if let Ok(rows) = &rv {
        if !rows.is_empty() && interesting(&q) {
            obs.nontrivial(&(text.as_str(), doc.text()), || json!({"query": text, "doc": doc.to_value(), "results": rows.len()}));
        }
    }
    // the values-only entry point: the same values on every type
    {
        obs.eval(3);
        let qv: Result<Vec<J>, String> = match guarded(|| v.query(&text)) {
            Ok(Ok(r)) => Ok(r.into_iter().map(J::from_value).collect()),
            Ok(Err(_)) => Err("Err".into()),
            Err(p) => Err(format!("panic: {}", p)),
        };
        let q1: Result<Vec<J>, String> = match guarded(|| v1.query(&text)) {
            Ok(Ok(r)) => Ok(r.into_iter().map(|x| x.to_j()).collect()),
            Ok(Err(_)) => Err("Err".into()),
            Err(p) => Err(format!("panic: {}", p)),
        };
        let same = match (&qv, &q1) {
            (Ok(a), Ok(b)) => a.len() == b.len() && a.iter().zip(b).all(|(x, y)| eq_json(x, y)),
            (Err(a), Err(b)) => a == b,
            _ => false,
        };
        let agrees_with_paths = match (&qv, &rv) {
            (Ok(a), Ok(b)) => a.len() == b.len() && a.iter().zip(b).all(|(x, (_, y))| eq_json(x, y)),
            (Err(_), Err(_)) => true,
            _ => false,
        };
        if !same || !agrees_with_paths {
            return Err(Failure::new(
                "JsonPath::query gives different values on serde_json::Value than on a faithful Queryable type (or than query_with_path on the same Value)",
                json!({"query": text, "doc": doc.to_value(), "query_on_value": format!("{:?}", qv.as_ref().map(|v| v.iter().map(|j| j.text()).collect::<Vec<_>>())),
                       "query_on_other_type": format!("{:?}", q1.as_ref().map(|v| v.iter().map(|j| j.text()).collect::<Vec<_>>())), "query_with_path_on_value": show(&rv)}),
            ));
        }
    }
    for (name, r) in [("V1 (insertion-ordered members, Int/Float variants)", &r1), ("V2 (f64 numbers, sorted map)", &r2)] {
        let same = match (&rv, r) {
            (Ok(a), Ok(b)) => rows_equal(a, b),
            (Err(a), Err(b)) => a.starts_with("Err") && b.starts_with("Err"),
            _ => false,
        };
        if !same {
            return Err(Failure::new(
                format!("the same query gives different results on serde_json::Value and on the faithful Queryable type {}", name),
                json!({"query": text, "doc": doc.to_value(), "on_value": show(&rv), "on_other_type": show(r)}),
            ));
        }
    }
    Ok(())
}

fn run_v3(v: &V3, q: &str) -> Result<Rows, String> {
    match guarded(|| v.query_with_path(q)) {
        Ok(Ok(r)) => Ok(r.into_iter().map(|x| (x.clone().path(), x.val().to_j())).collect()),
        Ok(Err(e)) => Err(format!("Err({})", e.to_string().lines().next().unwrap_or(""))),
        Err(p) => Err(format!("panic: {}", p)),
    }
}

/// the trait leaves the enclosing quotes of a key to the implementation of `get`: a type that strips
/// exactly one enclosing pair (V3) is as faithful as one that strips greedily like `Value` (V1).  The two
/// readings name the same member unless the name ends with a quote character, so everywhere else the
/// results on V3 must equal those on `Value` - names that need escapes, start with a quote or are spelled
/// with free escapes included (what the engine does with the escapes cancels in the comparison).
fn random_one_pair_get(src: &mut Src, obs: &mut Obs) -> Res {
    if src.chance(1, 6) {
        // member names of *compared objects* never pass through `get`: objects whose names differ only in
        // layers of quotes are different objects on every data type
        let names = ["k", "'k'", "''k''", "\"k\"", "\"\"k\"\"", "'k", "k'", "'\"k\"'"];
        let n = 1 + src.below(4);
        let rows: Vec<J> = (0..n)
            .map(|_| {
                let v = J::Int(src.range(0, 1));
                let a = J::Obj(vec![(src.pick(&names).to_string(), v.clone())]);
                let b = J::Obj(vec![(src.pick(&names).to_string(), if src.chance(1, 4) { J::Int(2) } else { v })]);
                J::Arr(vec![a, b])
            })
            .collect();
        let doc = J::Arr(rows);
        let text = format!("$[?@[0] {} @[1]]", src.pick(&["==", "!=", "<="]));
        obs.eval(3);
        obs.label("objects-with-quote-layered-names-compared");
        obs.nontrivial(&(text.as_str(), doc.text()), || json!({"query": text, "doc": doc.to_value()}));
        let rv = run_value(&doc.to_value(), &text);
        let r1 = run_v1(&V1::from_j(&doc), &text).map(|x| x.0);
        let r3 = run_v3(&V3::from_j(&doc), &text);
        for (name, r) in [("V1", &r1), ("V3 (get strips exactly one pair of quotes)", &r3)] {
            let same = match (&rv, r) {
                (Ok(a), Ok(b)) => rows_equal(a, b),
                (Err(a), Err(b)) => a.starts_with("Err") && b.starts_with("Err"),
                _ => false,
            };
            if !same {
                return Err(Failure::new(
                    format!("comparing two objects gives different results on serde_json::Value and on the faithful Queryable type {}", name),
                    json!({"query": text, "doc": doc.to_value(), "on_value": show(&rv), "on_other_type": show(r)}),
                ));
            }
        }
        return Ok(());
    }
    let mut cfg = cfg15();
    cfg.special_keys = true;
    cfg.free_escapes = src.bool();
    let doc = gen_doc(src, &cfg).sorted();
    let q = gen_query(src, &doc, &cfg);
    let mut ends_with_quote = false;
    let mut starts_with_quote = false;
    let mut escaped = false;
    for_each_str(&q, &mut |s, is_name| {
        if is_name {
            ends_with_quote |= s.val.ends_with('\'') || s.val.ends_with('"');
            starts_with_quote |= s.val.starts_with('\'') || s.val.starts_with('"');
            escaped |= s.has_escape();
        }
    });
    if ends_with_quote {
        obs.label("name-ends-with-a-quote(readings differ, not judged)");
        return Ok(());
    }
    let text = render_with_blanks(src, &q, false);
    let v = doc.to_value();
    obs.eval(2);
    let rv = run_value(&v, &text);
    let r3 = run_v3(&V3::from_j(&doc), &text);
    if starts_with_quote {
        obs.label("name-starts-with-a-quote");
    }
    if escaped {
        obs.label("name-spelled-with-escape");
    }
    if escaped || starts_with_quote {
        obs.nontrivial(&(text.as_str(), doc.text()), || json!({"query": text, "doc": doc.to_value()}));
    }
    let same = match (&rv, &r3) {
        (Ok(a), Ok(b)) => rows_equal(a, b),
        (Err(a), Err(b)) => a.starts_with("Err") && b.starts_with("Err"),
        _ => false,
    };
    if !same {
        return Err(Failure::new(
            "the same query gives different results on serde_json::Value and on a faithful Queryable type whose `get` strips exactly one pair of enclosing quotes",
            json!({"query": text, "doc": doc.to_value(), "on_value": show(&rv), "on_other_type": show(&r3)}),
        ));
    }
    Ok(())
}

/// the set functions on documents made for them: elements and lists over a small alphabet with values that
/// are equal without being identical (0.0 / -0.0, equal arrays and objects), arguments `@` and `$.l`
fn set_function_views(src: &mut Src, obs: &mut Obs) -> Res {
    fn elem(src: &mut Src, depth: usize) -> J {
        match src.below(if depth > 0 { 9 } else { 7 }) {
            0 => J::Float(0.0),
            1 => J::Float(-0.0),
            2 => J::Float(*src.pick(&[0.5, 1.5, 1e300])),
            3 => J::Int(src.range(0, 2)),
            4 => J::Str(src.pick(&["a", "b", "0"]).to_string()),
            5 => J::Null,
            6 => J::Bool(src.bool()),
            7 => J::Arr((0..src.below(3)).map(|_| elem(src, depth - 1)).collect()),
            _ => J::Obj(vec![("k".to_string(), elem(src, depth - 1))]),
        }
    }
    let n = 1 + src.below(5);
    let elems: Vec<J> = (0..n).map(|_| elem(src, 1)).collect();
    let list: Vec<J> = (0..src.below(6)).map(|_| elem(src, 1)).collect();
    let arrays = src.bool();
    let doc = J::Obj(vec![
        ("e".to_string(), J::Arr(if arrays { elems.into_iter().map(|x| J::Arr(vec![x, J::Float(0.0)])).collect() } else { elems })),
        ("l".to_string(), J::Arr(list)),
    ])
    .sorted_by_name();
    let f = if arrays { *src.pick(&["any_of", "none_of", "subset_of"]) } else { *src.pick(&["in", "nin"]) };
    let text = format!("$.e[?{}{}(@, $.l)]", if src.chance(1, 4) { "!" } else { "" }, f);
    obs.eval(2);
    obs.label("set-function-on-set-documents");
    obs.nontrivial(&(text.as_str(), doc.text()), || json!({"query": text, "doc": doc.to_value()}));
    let rv = run_value(&doc.to_value(), &text);
    let r1 = run_v1(&V1::from_j(&doc), &text).map(|x| x.0);
    let same = match (&rv, &r1) {
        (Ok(a), Ok(b)) => rows_equal(a, b),
        (Err(a), Err(b)) => a.starts_with("Err") && b.starts_with("Err"),
        _ => false,
    };
    if !same {
        return Err(Failure::new(
            "a set function gives different results on serde_json::Value and on a faithful Queryable type that implements it the same way",
            json!({"query": text, "doc": doc.to_value(), "on_value": show(&rv), "on_other_type": show(&r1)}),
        ));
    }
    Ok(())
}

/// the documented extension functions are implemented per data type; V1 writes them the way the
/// implementation for `Value` does (membership by the `==` of the type), so whatever the engine does with
/// the arguments, the answers must be the same on both
fn random_extension_views(src: &mut Src, obs: &mut Obs) -> Res {
    if src.bool() {
        return set_function_views(src, obs);
    }
    let mut cfg = GenCfg::plain();
    cfg.ext_funcs = true;
    cfg.funcs = true;
    cfg.max_width = 5;
    let doc = gen_doc(src, &cfg).sorted_by_name();
    let q = gen_query(src, &doc, &cfg);
    let mut uses_ext = false;
    let text = render_plain(&q);
    for f in ["in(", "nin(", "none_of(", "any_of(", "subset_of("] {
        uses_ext |= text.contains(f);
    }
    if !uses_ext {
        return Ok(());
    }
    obs.eval(2);
    obs.label("extension-function-call");
    let rv = run_value(&doc.to_value(), &text);
    let r1 = run_v1(&V1::from_j(&doc), &text).map(|x| x.0);
    if let Ok(rows) = &rv {
        if !rows.is_empty() {
            obs.nontrivial(&(text.as_str(), doc.text()), || json!({"query": text, "doc": doc.to_value(), "results": rows.len()}));
        }
    }
    let same = match (&rv, &r1) {
        (Ok(a), Ok(b)) => rows_equal(a, b),
        (Err(a), Err(b)) => a.starts_with("Err") && b.starts_with("Err"),
        _ => false,
    };
    if !same {
        return Err(Failure::new(
            "a query with an extension function gives different results on serde_json::Value and on a faithful Queryable type that implements the functions the same way",
            json!({"query": text, "doc": doc.to_value(), "on_value": show(&rv), "on_other_type": show(&r1)}),
        ));
    }
    Ok(())
}

/// a view that stores equal sub-documents once and shares them (V4): which nodes a query selects must not
/// depend on how the view lays its nodes out in memory.  Documents get a copy of one of their own
/// containers grafted in at another place, so that shared containers with containers inside are the rule.
fn random_shared_nodes(src: &mut Src, obs: &mut Obs) -> Res {
    let cfg = cfg15();
    let mut doc = gen_doc(src, &cfg);
    // graft: copy a container that has a container inside to the end of the root (or under a new name)
    let locs = doc.all_locs();
    let cands: Vec<Loc> = locs.iter().filter(|l| !l.is_empty() && doc.get_loc(l).map_or(false, |n| n.depth() >= 2)).cloned().collect();
    if !cands.is_empty() {
        let l: Loc = src.pick(&cands[..]).clone();
        let copy = doc.get_loc(&l).cloned().unwrap_or(J::Null);
        let times = 1 + src.below(2);
        match &mut doc {
            J::Arr(a) => (0..times).for_each(|_| a.push(copy.clone())),
            J::Obj(m) => (0..times).for_each(|i| m.push((format!("dup{}", i), copy.clone()))),
            _ => {}
        }
    }
    let doc = doc.sorted_by_name();
    let q = gen_query(src, &doc, &cfg);
    let text = render_plain(&q);
    let v4 = V4::from_j(&doc);
    let shared = v4.shared_containers();
    obs.eval(2);
    if shared > 0 {
        obs.label("document-with-shared-containers");
    }
    let rv = run_value(&doc.to_value(), &text);
    let r4: Result<Rows, String> = match guarded(|| v4.query_with_path(&text)) {
        Ok(Ok(r)) => Ok(r.into_iter().map(|x| (x.clone().path(), x.val().to_j())).collect()),
        Ok(Err(e)) => Err(format!("Err({})", e.to_string().lines().next().unwrap_or(""))),
        Err(p) => Err(format!("panic: {}", p)),
    };
    if let Ok(rows) = &rv {
        if shared > 0 && !rows.is_empty() && interesting(&q) {
            obs.nontrivial(&(text.as_str(), doc.text()), || json!({"query": text, "doc": doc.to_value(), "shared_containers": shared, "results": rows.len()}));
        }
    }
    let same = match (&rv, &r4) {
        (Ok(a), Ok(b)) => rows_equal(a, b),
        (Err(a), Err(b)) => a.starts_with("Err") && b.starts_with("Err"),
        _ => false,
    };
    if !same {
        return Err(Failure::new(
            "the same query gives different results on serde_json::Value and on a faithful Queryable type that stores equal sub-documents once and shares them",
            json!({"query": text, "doc": doc.to_value(), "shared_containers": shared, "on_value": show(&rv), "on_other_type": show(&r4)}),
        ));
    }
    Ok(())
}

/// a float literal beyond the range of f64 reaches the data type through `From<f64>`: whatever the engine
/// hands over, it must be the same for every type (V1 keeps an infinity it is given, V2 - like
/// serde_json - turns it into its null)
fn overflow_literal_views(src: &mut Src, obs: &mut Obs) -> Res {
    let n = 1 + src.below(5);
    let items: Vec<J> = (0..n)
        .map(|_| match src.below(8) {
            0 => J::Null,
            1 => J::Float(f64::MAX),
            2 => J::Float(f64::MIN),
            3 => J::Float(1e300),
            4 => J::Str("x".into()),
            5 => J::Bool(true),
            _ => J::Int(src.range(-2, 2)),
        })
        .collect();
    let doc = J::Arr(items);
    let lit = *src.pick(&["1e400", "-1e400", "1E+999", "-18e307", "2.5e308"]);
    let op = src.pick(&Op::ALL).text();
    let text = if src.bool() { format!("$[?@ {} {}]", op, lit) } else { format!("$[?{} {} @]", lit, op) };
    obs.eval(3);
    obs.label("literal-beyond-f64-range");
    obs.nontrivial(&(text.as_str(), doc.text()), || json!({"query": text, "doc": doc.to_value()}));
    let rv = run_value(&doc.to_value(), &text);
    let r1 = run_v1(&V1::from_j(&doc), &text).map(|x| x.0);
    let r2 = run_v2(&V2::from_j(&doc), &text);
    for (name, r) in [("V1 (keeps an infinity)", &r1), ("V2 (non-finite doubles become its null)", &r2)] {
        let same = match (&rv, r) {
            (Ok(a), Ok(b)) => a.len() == b.len() && a.iter().zip(b).all(|((p1, _), (p2, _))| p1 == p2),
            (Err(a), Err(b)) => a.starts_with("Err") && b.starts_with("Err"),
            _ => false,
        };
        if !same {
            return Err(Failure::new(
                format!("a comparison with a float literal beyond the f64 range selects different nodes on serde_json::Value and on the faithful Queryable type {}", name),
                json!({"query": text, "doc": doc.to_value(), "on_value": show(&rv), "on_other_type": show(r)}),
            ));
        }
    }
    Ok(())
}

/// numbers at the edge of what the accessors can express: integers beyond 2^53 (no double holds them),
/// whole-valued doubles of that size, integers above i64::MAX.  How the engine compares such pairs is
/// not judged here - only that it compares them the same way on `Value` and on V1, whose integer,
/// unsigned and float variants each answer to exactly one accessor.
/// member names that look like paths (`max.price`, `l[0]`, `a.b.c`) beside the nested members those texts
/// would spell: a name is one step, on every type - whatever shortcut a type offers for resolving path texts
fn random_pathlike_names(src: &mut Src, obs: &mut Obs) -> Res {
    let nums = [J::Int(5), J::Int(20), J::Int(500), J::Float(20.0), J::Str("20".into()), J::Null];
    let mut pick = |src: &mut Src| src.pick(&nums).clone();
    let mut limits: Vec<(String, J)> = vec![];
    if !src.chance(1, 5) {
        limits.push(("max.price".into(), pick(src)));
    }
    if !src.chance(1, 4) {
        limits.push(("max".into(), J::Obj(vec![("price".into(), pick(src))])));
    }
    limits.push(("l[0]".into(), pick(src)));
    limits.push(("l".into(), J::Arr(vec![pick(src)])));
    let n = 1 + src.below(4);
    let items: Vec<J> = (0..n).map(|_| J::Obj(vec![("price".into(), pick(src)), ("a.b".into(), pick(src)), ("a".into(), J::Obj(vec![("b".into(), pick(src))]))])).collect();
    let doc = J::Obj(vec![("items".into(), J::Arr(items)), ("limits".into(), J::Obj(limits)), ("a.b".into(), pick(src)), ("a".into(), J::Obj(vec![("b".into(), pick(src))]))]).sorted();
    let op = src.pick(&Op::ALL).text();
    let text = match src.below(9) {
        0 => format!("$.items[?@.price {} $.limits['max.price']]", op),
        1 => format!("$.items[?@.price {} $.limits.max.price]", op),
        2 => format!("$.items[?$.limits[\"max.price\"] {} @.price]", op),
        3 => format!("$.items[?@.price {} $.limits['l[0]']]", op),
        4 => format!("$.items[?@.price {} $['a.b']]", op),
        5 => format!("$.items[?@['a.b'] {} @.a.b]", op),
        6 => "$.items[?$.limits['max.price']]".to_string(),
        7 => format!("$.items[?value($['a.b']) {} @.price]", op),
        _ => format!("$.items[?@.price {} $.a.b]", op),
    };
    obs.eval(2);
    obs.label("path-like-names");
    obs.nontrivial(&(text.as_str(), doc.text()), || json!({"query": text, "doc": doc.to_value()}));
    let rv = run_value(&doc.to_value(), &text);
    let r1 = run_v1(&V1::from_j(&doc), &text).map(|x| x.0);
    let same = match (&rv, &r1) {
        (Ok(a), Ok(b)) => rows_equal(a, b),
        (Err(a), Err(b)) => a.starts_with("Err") && b.starts_with("Err"),
        _ => false,
    };
    if !same {
        return Err(Failure::new(
            "a query whose operand names a member with a path-like name selects different nodes on serde_json::Value and on a faithful Queryable type",
            json!({"query": text, "doc": doc.to_value(), "on_value": show(&rv), "on_other_type": show(&r1)}),
        ));
    }
    Ok(())
}

fn random_number_views(src: &mut Src, obs: &mut Obs) -> Res {
    if src.chance(1, 6) {
        return overflow_literal_views(src, obs);
    }
    if src.chance(1, 5) {
        // an "IN list" as programs write it: one operand compared with several literals, integers spelled as
        // floats among them, on a type whose integers answer to `as_i64` only
        let vals = [J::Int(10), J::Int(20), J::Int(2), J::Float(12.5), J::Float(10.0), J::Int(-1), J::Str("10".into()), J::Null];
        let n = 1 + src.below(5);
        let rows: Vec<J> = (0..n).map(|_| J::Obj(vec![("a".to_string(), src.pick(&vals).clone())])).collect();
        let doc = J::Arr(rows);
        let lits = ["10.0", "1E1", "2e1", "20", "12.5", "2", "2.0", "-1.0", "1.25e1", "'10'", "null"];
        let k = 2 + src.below(4);
        let alts: Vec<String> = (0..k)
            .map(|_| {
                let l = src.pick(&lits);
                if src.chance(1, 4) {
                    format!("{} == @.a", l)
                } else {
                    format!("@.a == {}", l)
                }
            })
            .collect();
        let text = format!("$[?{}]", alts.join(" || "));
        obs.eval(2);
        obs.label("or-chain-of-equalities");
        obs.nontrivial(&(text.as_str(), doc.text()), || json!({"query": text, "doc": doc.to_value()}));
        let rv = run_value(&doc.to_value(), &text);
        let r1 = run_v1(&V1::from_j(&doc), &text).map(|x| x.0);
        let same = match (&rv, &r1) {
            (Ok(a), Ok(b)) => rows_equal(a, b),
            (Err(a), Err(b)) => a.starts_with("Err") && b.starts_with("Err"),
            _ => false,
        };
        if !same {
            return Err(Failure::new(
                "a chain of equalities selects different nodes on serde_json::Value and on a faithful Queryable type with separate integer and float variants",
                json!({"query": text, "doc": doc.to_value(), "on_value": show(&rv), "on_other_type": show(&r1)}),
            ));
        }
        return Ok(());
    }
    let big_int = |src: &mut Src| -> i64 {
        let m = match src.below(4) {
            0 => (1i64 << 53) + src.range(0, 40),
            1 => 10_000_000_000_000_000 + src.range(-3, 3),
            2 => (1i64 << (54 + src.below(9))) + src.range(-3, 3),
            _ => i64::MAX - src.range(0, 2000),
        };
        if src.chance(1, 4) {
            -m
        } else {
            m
        }
    };
    let num = |src: &mut Src| -> J {
        match src.below(6) {
            0 | 1 => J::Int(big_int(src)),
            2 => J::Float(big_int(src) as f64),
            3 => J::Float(*src.pick(&[1e16, 9007199254740992.0, 1.8014398509481984e16, 9.223372036854776e18, -9.223372036854776e18, 1e19, 0.5])),
            4 => J::UInt(*src.pick(&[(1u64 << 63), (1u64 << 63) + 1, (1u64 << 63) + 2048, u64::MAX - 1, u64::MAX])),
            _ => J::Int(src.range(-3, 3)),
        }
    };
    let n = 1 + src.below(4);
    let mut rows = vec![];
    for _ in 0..n {
        let a = num(src);
        let b = match src.below(4) {
            // the same value in the other representation, or its neighbour
            0 => match &a {
                J::Int(i) => J::Float(*i as f64),
                J::Float(f) if f.abs() < 9.3e18 => J::Int(*f as i64),
                x => x.clone(),
            },
            1 => match &a {
                J::Int(i) => J::Int(i.saturating_add(src.range(-2, 2))),
                x => x.clone(),
            },
            _ => num(src),
        };
        // one row in four holds the two numbers inside containers of the same shape (a span next to its parent's,
        // a pair of ids): the comparison then runs through the element-wise steps of array / object equality
        let (a, b) = match src.below(8) {
            0 => (J::Arr(vec![J::Int(1), a]), J::Arr(vec![J::Int(1), b])),
            1 => (J::Obj(vec![("k".into(), a)]), J::Obj(vec![("k".into(), b)])),
            _ => (a, b),
        };
        rows.push(J::Obj(vec![("a".into(), a), ("b".into(), b)]));
    }
    let doc = J::Arr(rows);
    let op = src.pick(&Op::ALL).text();
    let text = match src.below(4) {
        0 => format!("$[?@.a {} @.b]", op),
        1 => format!("$[?@.a {} $[0].b]", op),
        2 => format!("$[?@.b {} {}]", op, src.pick(&["1e16", "9007199254740992.0", "1.8014398509481984e16", "-9.223372036854776e18", "1e19", "18446744073709551615.0"])),
        _ => format!("$[?value(@.a) {} value(@.b)]", op),
    };
    let v = doc.to_value();
    obs.eval(2);
    obs.label("numbers-beyond-2^53");
    obs.nontrivial(&(text.as_str(), doc.text()), || json!({"query": text, "doc": doc.to_value()}));
    let rv = run_value(&v, &text);
    let r1 = run_v1(&V1::from_j(&doc), &text).map(|x| x.0);
    let same = match (&rv, &r1) {
        (Ok(a), Ok(b)) => a.len() == b.len() && a.iter().zip(b).all(|((p1, _), (p2, _))| p1 == p2),
        (Err(a), Err(b)) => a.starts_with("Err") && b.starts_with("Err"),
        _ => false,
    };
    if !same {
        return Err(Failure::new(
            "the same comparison of large numbers selects different nodes on serde_json::Value and on a faithful Queryable type with separate integer / unsigned / float variants",
            json!({"query": text, "doc": doc.to_value(), "on_value": show(&rv), "on_other_type": show(&r1)}),
        ));
    }
    Ok(())
}

fn shuffle(src: &mut Src, j: &J) -> J {
    match j {
        J::Arr(a) => J::Arr(a.iter().map(|x| shuffle(src, x)).collect()),
        J::Obj(m) => {
            let mut m2: Vec<(String, J)> = m.iter().map(|(k, v)| (k.clone(), shuffle(src, v))).collect();
            // Fisher-Yates driven by the choice sequence
            for i in (1..m2.len()).rev() {
                let k = src.below(i + 1);
                m2.swap(i, k);
            }
            J::Obj(m2)
        }
        x => x.clone(),
    }
}

/// a member order other than the sorted one: the order of the view decides the order of the result
fn random_unsorted(src: &mut Src, obs: &mut Obs) -> Res {
    unsorted_case(src, obs, ID, false)
}

/// shared with C02 (`id` selects the list of open findings the attribution may use)
pub fn unsorted_case(src: &mut Src, obs: &mut Obs, id: &str, order_only: bool) -> Res {
    let mut cfg = cfg15();
    cfg.max_width = 5;
    let sorted = gen_doc(src, &cfg).sorted();
    let doc = shuffle(src, &sorted);
    let q = gen_query(src, &doc, &cfg);
    let text = render_plain(&q);
    let v1 = V1::from_j(&doc);
    obs.eval(2);
    let (rows, locs) = match run_v1(&v1, &text) {
        Ok(x) => x,
        Err(e) => return Err(Failure::new(format!("a valid query fails on the second Queryable type: {}", e), json!({"query": text, "doc": doc.to_value()}))),
    };
    let reordered = doc != sorted;
    if reordered {
        obs.label("member-order-differs-from-sorted");
    }
    if !rows.is_empty() && interesting(&q) && reordered {
        obs.nontrivial(&(text.as_str(), format!("{:?}", doc)), || json!({"query": text, "doc(insertion order)": format!("{:?}", doc), "results": rows.len()}));
    }
    // (a) the nodes, in order, are those of the reference semantics run on this member order
    let case = || json!({"query": text, "doc(insertion order)": format!("{:?}", doc)});
    match attribute(id, &locs, |k| oracle::eval(&q, &doc, k).iter().map(|n| Some(n.loc())).collect::<Vec<_>>()) {
        Attribution::Strict => {}
        Attribution::Known(bits) => {
            for id in finding_ids_for_bits(id, bits) {
                obs.known(&id, || case());
            }
        }
        Attribution::Unexplained => {
            let mut c = case();
            c["library_order"] = json!(locs.iter().map(|l| l.as_ref().map(|l| normalized_path(l))).collect::<Vec<_>>());
            c["expected_order"] = json!(oracle::eval(&q, &doc, &Quirks::strict()).iter().map(|n| normalized_path(&n.loc())).collect::<Vec<_>>());
            return Err(Failure::new("on a Queryable type whose members are not in sorted order the result is not the RFC nodelist in that view's order", c));
        }
    }
    if order_only {
        return Ok(());
    }
    // (b) as a multiset of (path, value) it equals the result on the equivalent serde_json::Value
    let v = sorted.to_value();
    let rv = match run_value(&v, &text) {
        Ok(r) => r,
        Err(e) => return Err(Failure::new(format!("the query fails on Value but not on the other type: {}", e), case())),
    };
    let key = |r: &Rows| {
        let mut k: Vec<(String, String)> = r.iter().map(|(p, v)| (p.clone(), v.sorted().text())).collect();
        k.sort();
        k
    };
    // values compare by mathematical value: normalise number spelling through eq_json on sorted rows
    let (ka, kb) = (key(&rows), key(&rv));
    let same = ka.len() == kb.len() && ka.iter().zip(&kb).all(|(a, b)| a.0 == b.0);
    if !same {
        let mut c = case();
        c["paths_on_other_type(sorted)"] = json!(ka.iter().map(|x| x.0.clone()).collect::<Vec<_>>());
        c["paths_on_value(sorted)"] = json!(kb.iter().map(|x| x.0.clone()).collect::<Vec<_>>());
        return Err(Failure::new("the set of result paths differs between serde_json::Value and a faithful Queryable type with another member order", c));
    }
    Ok(())
}

/// structural equality must not depend on the member order of the view
fn random_object_equality(src: &mut Src, obs: &mut Obs) -> Res {
    let cfg = cfg15();
    let n = 1 + src.below(4);
    let mut elems = vec![];
    for _ in 0..n {
        let base = {
            let k = 2 + src.below(3);
            let mut m: Vec<(String, J)> = vec![];
            for i in 0..k {
                let key = format!("{}{}", src.pick(&["a", "b", "c"]), i);
                m.push((key, gen_value(src, 1, &cfg)));
            }
            J::Obj(m)
        };
        let other = match src.below(3) {
            0 => shuffle(src, &base),
            1 => {
                // same keys, one value changed
                let mut o = shuffle(src, &base);
                if let J::Obj(m) = &mut o {
                    let i = src.below(m.len());
                    m[i].1 = J::Str("changed".into());
                }
                o
            }
            _ => J::Arr(vec![shuffle(src, &base)]),
        };
        let wrap = src.bool();
        elems.push(J::Obj(vec![("x".into(), if wrap { J::Arr(vec![base]) } else { base }), ("y".into(), if wrap && !matches!(other, J::Arr(_)) { J::Arr(vec![other]) } else { other })]));
    }
    let doc = J::Arr(elems);
    let op = *src.pick(&[Op::Eq, Op::Ne, Op::Le]);
    let sing = |n: &str| Cmpable::Sing(Sing { abs: false, steps: vec![SingStep::Name(StrLit::plain(n), true)] });
    let q = Query { abs: true, segs: vec![Seg { desc: false, sels: vec![Sel::Filter(Expr::Cmp(Box::new(sing("x")), op, Box::new(sing("y"))))], dot: false }] };
    let text = render_plain(&q);
    let v1 = V1::from_j(&doc);
    obs.eval(1);
    obs.label("object-equality-across-member-orders");
    let (_, locs) = run_v1(&v1, &text).map_err(|e| Failure::new(format!("query fails on V1: {}", e), json!({"query": text})))?;
    let exp: Vec<Option<Loc>> = oracle::eval(&q, &doc, &Quirks::strict()).iter().map(|n| Some(n.loc())).collect();
    obs.nontrivial(&(text.as_str(), format!("{:?}", doc)), || json!({"query": text, "doc(insertion order)": format!("{:?}", doc), "kept": exp.len()}));
    if locs != exp {
        return Err(Failure::new(
            "comparison of objects depends on the member order of the Queryable view",
            json!({"query": text, "doc(insertion order)": format!("{:?}", doc),
                   "expected": exp.iter().map(|l| normalized_path(l.as_ref().unwrap())).collect::<Vec<_>>(),
                   "library": locs.iter().map(|l| l.as_ref().map(|l| normalized_path(l))).collect::<Vec<_>>()}),
        ));
    }
    Ok(())
}

fn direct(case: &Value, obs: &mut Obs) -> Res {
    let text = case["query"].as_str().unwrap_or("");
    let doc = J::from_value(&case["doc"]).sorted_by_name();
    let v = doc.to_value();
    obs.eval(3);
    let rv = run_value(&v, text);
    let r1 = run_v1(&V1::from_j(&doc), text).map(|x| x.0);
    let r2 = run_v2(&V2::from_j(&doc), text);
    for r in [&r1, &r2] {
        let same = match (&rv, r) {
            (Ok(a), Ok(b)) => rows_equal(a, b),
            (Err(_), Err(_)) => true,
            _ => false,
        };
        if !same {
            return Err(Failure::new("results differ between Value and a second Queryable type", json!({"case": case, "on_value": show(&rv), "on_other": show(r)})));
        }
    }
    Ok(())
}

pub fn prop() -> Prop {
    Prop {
        id: ID,
        rule: "the document-guided query generator (all selectors, filters, comparisons, RFC functions incl. regex; the documented extension functions in a family of their own, V1 implementing them the way the implementation for Value does) on documents viewed through serde_json::Value and two harness types implementing Queryable: \
               V1 (members in insertion order, separate Int/Float variants answering only to as_i64 resp. as_f64, derived PartialEq) and V2 (one f64 number variant, BTreeMap members, as_i64 always None); V3 is V1 with a `get` that strips exactly one pair of enclosing quotes (names that may need escapes, except those ending with a quote character where the two readings of the trait's contract differ). \
               Same member order: paths and values must agree position by position. Shuffled member order (V1): locations (by address) must equal the reference evaluator run on that order, and the multiset of paths must equal the Value run. \
               Non-trivial: non-empty result and the query has a filter, a wildcard or a nested query (and, for the shuffled family, the order really differs from sorted). Distinct by (query text, document).",
        assumptions: vec![
            "`get` of V1 and V2 strips the enclosing quotes of the key the way the reference implementation for Value does (greedily); V3 strips exactly one pair",
            "differential oracle: deviations shared by all data types cancel; the shuffled family uses the reference evaluator with the open ordering finding K1 attributed",
        ],
        subs: vec![
            Sub { name: "random-diff", kind: Kind::Random { f: random_diff, quick: 240_000, thorough: 4_800_000, len: 500 } },
            Sub { name: "random-object-equality", kind: Kind::Random { f: random_object_equality, quick: 64_000, thorough: 1_280_000, len: 300 } },
            Sub { name: "random-shared-nodes", kind: Kind::Random { f: random_shared_nodes, quick: 120_000, thorough: 2_400_000, len: 500 } },
            Sub { name: "random-extension-views", kind: Kind::Random { f: random_extension_views, quick: 120_000, thorough: 2_400_000, len: 500 } },
            Sub { name: "random-pathlike-names", kind: Kind::Random { f: random_pathlike_names, quick: 30_000, thorough: 600_000, len: 64 } },
            Sub { name: "random-number-views", kind: Kind::Random { f: random_number_views, quick: 60_000, thorough: 1_200_000, len: 64 } },
            Sub { name: "random-one-pair-get", kind: Kind::Random { f: random_one_pair_get, quick: 120_000, thorough: 2_400_000, len: 500 } },
            Sub { name: "random-unsorted", kind: Kind::Random { f: random_unsorted, quick: 160_000, thorough: 3_200_000, len: 500 } },
        ],
        direct: Some(direct),
        selftest: Some(crate::rfc::selftest),
        fuzz: None,
        insertion_order_stage: false,
    }
}
