//! C07 — every string that is not a valid RFC 9535 query is rejected

use crate::engine::*;
use crate::libx::{self, LibErr};
use crate::recog::{classify, Verdict};
use crate::sentence::*;
use crate::src::Src;
use serde_json::{json, Value};

pub const ID: &str = "C07";

/// `s` must be rejected if the recogniser says it is invalid
pub fn must_reject(s: &str, how: &str, near_miss: bool, obs: &mut Obs) -> Res {
    let reason = match classify(s) {
        Verdict::Invalid(r) => r,
        Verdict::Valid(_) => {
            obs.label("mutant-is-valid(skipped)");
            return Ok(());
        }
        Verdict::NotJudged(why, _) => {
            obs.not_judged(&why);
            return Ok(());
        }
    };
    obs.label(&format!("reason:{}", reason.kind));
    obs.label(&format!("operator:{}", how));
    if near_miss {
        obs.nontrivial(&s, || json!({"query": s, "invalid_because": format!("{} at {}: {}", reason.kind, reason.pos, reason.detail), "made_by": how}));
    }
    obs.eval(1);
    let case = || json!({"query": s, "invalid_because": format!("{} at char {}: {}", reason.kind, reason.pos, reason.detail), "made_by": how});
    match libx::parse(s) {
        Err(LibErr::Err(_)) => {}
        Ok(ast) => {
            // class signatures of open findings
            let mut c = case();
            c["accepted_as"] = json!(ast.to_string());
            return Err(Failure::new(
                format!("an invalid query is accepted by parse_json_path ({}: {})", reason.kind, reason.detail),
                c,
            ));
        }
        Err(LibErr::Panic(p)) => return Err(Failure::new(format!("parse_json_path panicked instead of returning Err: {}", p), case())),
    }
    for d in [json!({"a": [1, 2, {"b": 3}]}), json!(null)] {
        obs.eval(1);
        match libx::query_paths(&d, s) {
            Err(LibErr::Err(_)) => {}
            Ok(r) => {
                let mut c = case();
                c["doc"] = d;
                c["result"] = json!(r);
                return Err(Failure::new("an invalid query is evaluated by JsonPath::query instead of returning Err", c));
            }
            Err(LibErr::Panic(p)) => return Err(Failure::new(format!("JsonPath::query panicked: {}", p), case())),
        }
    }
    Ok(())
}

fn random_token_mutants(src: &mut Src, obs: &mut Obs) -> Res {
    let q = gen_valid(src);
    let s = render_spelled(src, &q);
    // the valid neighbour goes through the library first (same thread): rejection of the near miss
    // must not depend on what was parsed before
    let _ = libx::parse(&s);
    let mut toks = tokenize(&s);
    let n = 1 + src.weighted(&[70, 22, 8]);
    let mut how = "";
    for _ in 0..n {
        how = mutate_tokens(src, &mut toks);
    }
    must_reject(&join(&toks), how, true, obs)
}

fn random_char_mutants(src: &mut Src, obs: &mut Obs) -> Res {
    let q = gen_valid(src);
    let s = render_spelled(src, &q);
    let _ = libx::parse(&s);
    let m = mutate_chars(src, &s);
    must_reject(&m, "char-edit", true, obs)
}

/// ill-typed and mis-aritied calls of the RFC functions, built on the AST and embedded in valid queries
fn random_illtyped(src: &mut Src, obs: &mut Obs) -> Res {
    use crate::ast::*;
    let lim = Lim { filter_depth: 1, fn_depth: 1, logic_depth: 1 };
    let nonsing = |src: &mut Src| -> Query {
        let mut q = Query { abs: src.chance(1, 3), segs: gen_segments(src, &Lim { filter_depth: 1, fn_depth: 0, logic_depth: 1 }, 3) };
        if q.is_singular() {
            if src.bool() {
                q.segs.push(Seg { desc: src.bool(), sels: vec![Sel::Wild], dot: true });
            } else {
                // a slice that selects at most one element is still not a singular query
                let i = src.range(-3, 6);
                let step = *src.pick(&[None, Some(1)]);
                q.segs.push(Seg { desc: false, sels: vec![Sel::Slice(Some(i), Some(i + 1), step, false)], dot: false });
            }
        }
        q
    };
    let sing = |src: &mut Src| Arg::Q(gen_singular(src).to_query());
    let lit = |src: &mut Src| Arg::Lit(gen_literal(src));
    let lexpr = |src: &mut Src| Arg::E(match gen_logical(src, &lim, 1) {
        // a bare test would be read as a query / function argument: force a real logical expression
        Expr::Test(n, t) => Expr::Paren(n, Box::new(Expr::Test(false, t))),
        e => e,
    });
    let value_fn = |src: &mut Src| gen_value_fn(src, &lim);
    let logical_fn = |src: &mut Src| gen_logical_fn(src, &lim);
    let cmp_with_lit = |src: &mut Src, f: Func| {
        let l = Cmpable::Lit(gen_literal(src));
        let op = *src.pick(&Op::ALL);
        if src.bool() { Expr::Cmp(Box::new(Cmpable::F(f)), op, Box::new(l)) } else { Expr::Cmp(Box::new(l), op, Box::new(Cmpable::F(f))) }
    };
    let (bad, how): (Expr, &'static str) = match src.below(12) {
        0 => (Expr::Test(src.chance(1, 3), Box::new(TestE::F(value_fn(src)))), "illtyped:value-function-as-test"),
        1 => {
            let f = logical_fn(src);
            (cmp_with_lit(src, f), "illtyped:logical-function-compared")
        }
        2 => {
            let a = Arg::Q(nonsing(src));
            (cmp_with_lit(src, Func { name: "length".into(), args: vec![a] }), "illtyped:length(non-singular)")
        }
        3 => {
            let a = if src.bool() { lexpr(src) } else { Arg::F(logical_fn(src)) };
            (cmp_with_lit(src, Func { name: "length".into(), args: vec![a] }), "illtyped:length(logical)")
        }
        4 => {
            let a = match src.below(3) { 0 => lit(src), 1 => Arg::F(value_fn(src)), _ => lexpr(src) };
            (cmp_with_lit(src, Func { name: "count".into(), args: vec![a] }), "illtyped:count(non-nodes)")
        }
        5 => {
            let a = match src.below(3) { 0 => lit(src), 1 => Arg::F(value_fn(src)), _ => lexpr(src) };
            (cmp_with_lit(src, Func { name: "value".into(), args: vec![a] }), "illtyped:value(non-nodes)")
        }
        6 => {
            let name = if src.bool() { "match" } else { "search" };
            let bad_arg = match src.below(3) { 0 => Arg::Q(nonsing(src)), 1 => lexpr(src), _ => Arg::F(logical_fn(src)) };
            let good = if src.bool() { sing(src) } else { lit(src) };
            let args = if src.bool() { vec![bad_arg, good] } else { vec![good, bad_arg] };
            (Expr::Test(src.chance(1, 4), Box::new(TestE::F(Func { name: name.into(), args }))), "illtyped:match/search(non-value)")
        }
        7 => {
            // arity
            let mut f = if src.bool() { value_fn(src) } else { logical_fn(src) };
            let is_val = matches!(f.name.as_str(), "length" | "count" | "value");
            if src.bool() && !f.args.is_empty() {
                f.args.pop();
            } else {
                let extra = if src.bool() { sing(src) } else { lit(src) };
                f.args.push(extra);
            }
            (if is_val { cmp_with_lit(src, f) } else { Expr::Test(false, Box::new(TestE::F(f))) }, "illtyped:arity")
        }
        8 => {
            // nested: the inner call is ill-typed, the outer is fine
            let inner = Func { name: "length".into(), args: vec![Arg::Q(nonsing(src))] };
            let outer = Func { name: if src.bool() { "match" } else { "search" }.into(), args: vec![Arg::F(inner), lit(src)] };
            (Expr::Test(false, Box::new(TestE::F(outer))), "illtyped:nested-inner")
        }
        9 => {
            let q = nonsing(src);
            let l = Cmpable::Lit(gen_literal(src));
            // a non-singular query as comparable cannot be expressed with `Cmpable`; render by hand below
            let text = format!("{} {} {}", render(&q, &mut Blanks::none()), src.pick(&Op::ALL).text(), {
                let mut s = String::new();
                if let Cmpable::Lit(Lit::Num(n)) = &l { s = n.text.clone(); } else { s.push_str("null"); }
                s
            });
            let frame = format!("$[?{}]", text);
            return must_reject(&frame, "illtyped:non-singular-comparable", true, obs);
        }
        10 => (Expr::Test(src.chance(1, 3), Box::new(TestE::F(Func { name: "count".into(), args: vec![Arg::Q(nonsing(src))] }))), "illtyped:count-as-test"),
        _ => {
            let f = Func { name: "value".into(), args: vec![Arg::Q(nonsing(src))] };
            let g = Func { name: "count".into(), args: vec![Arg::F(f)] };
            (cmp_with_lit(src, g), "illtyped:count(value())")
        }
    };
    // embed next to a valid expression inside a valid query
    let good = gen_logical(src, &lim, 1);
    let good = match good { e @ (Expr::Or(_) | Expr::And(_)) => Expr::Paren(false, Box::new(e)), e => e };
    let e = match src.below(4) {
        0 => bad,
        1 => Expr::And(vec![good, bad]),
        2 => Expr::Or(vec![bad, good]),
        _ => Expr::Paren(src.bool(), Box::new(bad)),
    };
    let mut q = Query { abs: true, segs: gen_segments(src, &lim, 2) };
    q.segs.push(Seg { desc: src.chance(1, 5), sels: vec![Sel::Filter(e)], dot: false });
    let s = render_spelled(src, &q);
    must_reject(&s, how, true, obs)
}

/// a valid query is parsed and evaluated, then variants that differ only in forbidden blank space
/// (leading, trailing, after `.` / `..`, before `(`) are submitted on the same thread
fn random_padded_after_valid(src: &mut Src, obs: &mut Obs) -> Res {
    let q = gen_valid(src);
    let s = render_spelled(src, &q);
    let d = serde_json::json!({"a": [1, {"b": 2}]});
    let _ = libx::parse(&s);
    let _ = libx::query_paths(&d, &s);
    let b = |src: &mut Src| -> String {
        let n = 1 + src.below(2);
        (0..n).map(|_| *src.pick(&[' ', '\t', '\n', '\r'])).collect()
    };
    let variant = match src.below(4) {
        0 => format!("{}{}", b(src), s),
        1 => format!("{}{}", s, b(src)),
        2 => format!("{}{}{}", b(src), s, b(src)),
        _ => {
            // a blank after the first `.` that starts a shorthand name
            match s.find('.') {
                Some(i) if s[i + 1..].chars().next().map_or(false, |c| c != '.' && c != '[') => format!("{}{}{}", &s[..i + 1], b(src), &s[i + 1..]),
                _ => format!("{}{}", s, b(src)),
            }
        }
    };
    must_reject(&variant, "padded-after-valid", true, obs)
}

fn random_soup(src: &mut Src, obs: &mut Obs) -> Res {
    if src.bool() {
        let s = token_soup(src);
        must_reject(&s, "token-soup", false, obs)
    } else {
        let s = arbitrary_string(src);
        must_reject(&s, "arbitrary-string", false, obs)
    }
}

/// targeted near misses: one forbidden thing placed into an otherwise valid frame
/// the strings of the targeted box with the family each belongs to (shared with C08, which runs them
/// through every entry point for panics)
pub fn targeted_inputs() -> Vec<(String, &'static str)> {
    let mut out: Vec<(String, &'static str)> = vec![];
    let ints = ["-0", "00", "01", "-01", "9007199254740992", "-9007199254740992", "9223372036854775807", "-9223372036854775808", "9223372036854775808", "18446744073709551616",
        "99999999999999999999999999", "1.0", "1e2", "+1", "0x10", " 1 2", "1_000", "9007199254740993", "-9223372036854775809", "18446744073709551615", "10000000000000000000",
        "340282366920938463463374607431768211455", "-340282366920938463463374607431768211456", "179769313486231570000000000000000000000000000000000000000000000000000000000000000000000000000000000000000000000000000000000000000000000000000000000000000000000000000000000000000000000000000000000000000000000000000000000000000000000000000000000000000000000000000000000000000000000000000000000000000000000000000000000000000000000000"];
    // (in the literal frames the forms `1.0`, `1e2`, `-0` are valid numbers: `must_reject` skips what the recogniser accepts)
    let int_frames = ["$[?@.a=={}]", "$[?{}<@.a]", "$[?@.a!={} && @.b]", "$[?length(@.a)<{}]", "$[?count(@.*)=={}]", "$[?$.a>={}]", "$[?@[?@.a<={}]]", "$[?value(@.a)=={}]","$[{}]", "$[{}:]", "$[:{}]", "$[::{}]", "$[1:{}:2]", "$..[{}]", "$[0,{}]", "$[?@[{}]==1]", "$[?$[{}]==1]", "$[?@.a[{}].b==1]", "$[?count(@[{}])==1]", "$[?@[?@[{}]]]", "$[?1 == 0 && @[{}] == 1]", "$[?1 == 1 || @.a == {}]", "$[?@.a[{}] && 1 == 0]"];
    for f in int_frames {
        for i in ints {
            out.push((f.replace("{}", i), "targeted:integer-form"));
        }
    }
    let blanks = [" ", "\t", "\n", "\r"];
    let blank_frames = [
        "{}$", "$.a{}", "$.{}a", "$..{}a", "$.a{}b", "$..{}*", "$.{}*", "$[?length{}(@)==1]", "$[?@.a={}=1]", "$[?@.a &{}& @.b]", "$[?@.a |{}| @.b]", "$[?@.a<{}=1]", "$[?@.{}a==1]",
        "$[?@.a==1{}0]", "$[?@.a==1.{}5]", "$[?@.a==1e{}2]", "$[?@.a==tr{}ue]", "$[1{}0]", "$[-{}1]", "$[?@.a==-{}1]", "$[?co{}unt(@.*)==1]", "$.{}.a", "${}", "$[?@.a==nu{}ll]",
        "$[?@.a!{}=1]", "$[?@.a>{}=1]", "$[?1 == 0 && @.{}a]", "$[?1 == 1 || length{}(@.a) == 1]", "$[?true == false && @..{}a]",
    ];
    for f in blank_frames {
        for b in blanks {
            out.push((f.replace("{}", b), "targeted:blank-where-forbidden"));
        }
    }
    let strings = ["'a", "a'", "\"a", "'a\"", "\"a'", "'\\x'", "'\\'", "'\\u12'", "'\\u123'", "'\\uD800'", "'\\uDC00'", "'\\uDC00\\uD800'", "'\\uD800\\u0041'", "'\\uD800x'", "'\\U0041'", "'\\u00\u{ff14}1'", "'\\u\u{ff21}041'", "'\\uD83D\\uDE0\u{ff10}'",
        "'\\\"'", "\"\\'\"", "'\u{1}'", "'\t'", "'a\nb'", "\"\r\"", "'\u{1f}'", "'\\a'", "'\\0'", "'\\ n'", "'\\u 0041'", "'\\u00 41'", "'''", "\"\"\""];
    let string_frames = ["$[{}]", "$[?@.a=={}]", "$[?@[{}]==1]", "$[?match(@.a,{})]", "$..[{}]", "$[0,{}]", "$[?length({})==1]"];
    for f in string_frames {
        for s in strings {
            out.push((f.replace("{}", s), "targeted:string-form"));
        }
    }
    let filters = [
        "1", "'a'", "true", "null", "1.5", "@.a==", "==1", "@.a==1==1", "@.a===1", "@.a=1", "@.a<>1", "@.a=>1", "@.a and @.b", "@.a or @.b", "not @.a", "@.a & @.b", "@.a | @.b", "@.a &&", "|| @.a",
        "@.a && || @.b", "!", "!!@.a", "(@.a", "@.a)", "()", "(@.a)==1", "!@.a==1", "@.*==1", "1==@.*", "@..a==1", "@[0,1]==1", "@[1:2]==1", "@[?@.b]==1", "@.a==@.*", "$.*==1", "$..a==$..a",
        "length(@)", "count(@.*)", "value(@.a)", "!length(@)", "length(@.*)<3", "length(@[0:1])==1", "length(@[1:2:1])==1", "match(@[0:1],'a')", "search(@.k[5:6],'a')", "@[0:1]==1", "1==$[2:3]", "@.a[-1:]==1", "length(@..a)==1", "length(@[0,1])==1", "length(@[1:])==1", "length(@[?@.a])==1", "length()==1", "length(@,@)==1",
        "length(@.a==1)==1", "length(match(@,'a'))==1", "count(1)==1", "count('a')==1", "count(@.a==1)==1", "count()==1", "count(@,@)==1", "count(length(@))==1", "count(true)==1",
        "value(1)==1", "value(@.a==1)==1", "value()==1", "value(length(@))==1", "match(@)", "match()", "match(@,'a','b')", "match(@.*,'a')", "match(@,@.*)", "match(@.a==1,'a')",
        "match(@,'a')==true", "match(@,'a')==1", "1==match(@,'a')", "search(@)", "search(@.*,'a')", "search(@,'a')==true", "match(count(@.*),'a')==1", "match(@..a,'a')", "search(@,@[0,1])",
        "Length(@)==1", "LENGTH(@)==1", "length (@)==1", "length(@)==1,", "@.a==True", "@.a==FALSE", "@.a==Null", "@.a==nil", "@.a==undefined", "@.a==01", "@.a==1.", "@.a==.5", "@.a==1e",
        "@.a==1e+", "@.a==+1", "@.a==--1", "@.a==0x1", "@.a==1 2", "@.a=='a' 'b'", "@.a==[1]", "@.a=={}", "@.a==(1)", "@.a in [1]", "@.a in $.b", "1 in @.a", "@.a nin $.b", "@.a size 1",
        "@.a anyOf $.b", "@.a noneOf $.b", "@.a subsetOf $.b", "@.a =~ 'a'", "@", "$", "@.a", "?@.a", "@.a,@.b", "*", "@ @", "@.a @.b", "$$", "@@", "@.a == $$", "@a", "@ a", "a", "a==1", "@.a == a", "@.a == @b",
    ];
    // (some of the list are valid on purpose: `must_reject` skips what the recogniser accepts, so the
    // frame is exercised from both sides and mistakes in the list cannot raise an alarm)
    for f in filters {
        // (the last six: behind or in front of a comparison of two literals that decides the chain on its own -
        // the switch a query builder emits; what stands beside it must still be a valid operand)
        for frame in ["$[?{}]", "$[?({})]", "$.a[?{}].b", "$[?@.x && {}]", "$[?@[?{}]]", "$[?1 == 0 && {}]", "$[?1 == 1 || {}]", "$[?'a' != 'a' && ({})]", "$[?null == null || {} || @.b]", "$[?{} && 1 == 0]", "$[?{} || true == true]"] {
            out.push((frame.replace("{}", f), "targeted:filter-form"));
        }
    }
    let queries = [
        "", " ", "$ ", " $", "$.", "$..", "$.a.", "$.a..", "$...a", "$.a...b", "$[", "$]", "$[]", "$[,]", "$[0,]", "$[,0]", "$[0,,1]", "$[0 1]", "$[0;1]", "$['a' 'b']", "$[a]", "$[.a]", "$[$.a]", "$[@.a]",
        "$[*.a]", "$.[0]", "$.['a']", "$..['a'", "$.a[", "$.a]", "$[0]]", "$[[0]]", "$[0][", "$.1", "$.1a", "$.-a", "$.a-b", "$.a b", "$.a,b", "$.'a'", "$.\"a\"", "$.*a", "$.**", "$..**", "$.a*", "$*", "$a", "$ a",
        "$$", "$.$", "$.@", "$.a$", "@", "@.a", "a", ".a", "..a", "[0]", "$.a=1", "$.a==1", "$(0)", "${0}", "$<0>", "$[0:1:2:3]", "$[1:2;3]", "$[1..2]", "$[1 : 2 : ]x", "$[?]", "$[??@.a]", "$[?@.a]?",
        "$[?@.a][", "$[*,]", "$[* *]", "$[**]", "$[1:2,]", "$['a':]", "$[:'a']", "$[1:'a']", "$[true]", "$[null]", "$[1.5]", "$[1e2]", "$[-]", "$[- 1]", "$[+1]", "$[0x1]", "$['a',]", "$.a\u{0}", "$\u{0}",
        "$.a\u{0}b", "\u{feff}$", "$.a\u{200b} ", "$.a #c", "$.a // c", "$.a /* c */", "$.a;", "$.a\\", "$\\.a", "$.\\a",
    ];
    for q in queries {
        out.push((q.to_string(), "targeted:query-form"));
    }
    out
}

fn targeted(obs: &mut Obs, _thorough: bool) -> Res {
    let inputs = targeted_inputs();
    for (s, family) in &inputs {
        must_reject(s, family, true, obs)?;
    }
    let n = inputs.len();
    obs.boxes.push(json!({"box": "targeted near misses: integer forms x integer positions, a blank at each place the grammar forbids one x 4 blanks, string forms x string positions, filter forms x filter frames, query forms", "strings": n, "exhaustive": true}));
    Ok(())
}

fn direct(case: &Value, obs: &mut Obs) -> Res {
    let s = case["query"].as_str().unwrap_or("");
    must_reject(s, "regression file", true, obs)
}

pub fn prop() -> Prop {
    Prop {
        id: ID,
        rule: "near misses of valid sentences: 1-3 token-level mutations (delete / duplicate / swap / replace / insert tokens from a dictionary of RFC and foreign tokens, blanks inside or beside tokens, damaged string and number literals, flipped delimiters), \
               1-3 character edits, a targeted box (integer forms in every integer position, a blank at every place the grammar forbids one, bad strings in every string position, ill-formed / ill-typed filters in five frames, malformed queries), token soup and arbitrary Unicode strings. \
               The independent recogniser decides: Invalid => parse_json_path and JsonPath::query must return Err; Valid / NotJudged strings are skipped and counted. \
               Non-trivial: the recogniser says Invalid and the string is a near miss (made by <= 3 mutation steps or from the targeted box). Distinct by string.",
        assumptions: vec![
            "the recogniser (harness/src/recog.rs) is a faithful reading of RFC 9535 Appendix A, 2.1 and 2.4 (self-tested on RFC examples; cross-checked against the sentence generator in C06)",
            "not judged: function names RFC 9535 does not define, integer literals in comparisons beyond the I-JSON range, blanks inside the brackets of a singular-query segment",
        ],
        subs: vec![
            Sub { name: "targeted", kind: Kind::Exhaustive(targeted) },
            Sub { name: "random-token-mutants", kind: Kind::Random { f: random_token_mutants, quick: 240_000, thorough: 4_800_000, len: 600 } },
            Sub { name: "random-char-mutants", kind: Kind::Random { f: random_char_mutants, quick: 160_000, thorough: 3_200_000, len: 600 } },
            Sub { name: "random-illtyped", kind: Kind::Random { f: random_illtyped, quick: 120_000, thorough: 2_400_000, len: 500 } },
            Sub { name: "random-padded-after-valid", kind: Kind::Random { f: random_padded_after_valid, quick: 80_000, thorough: 1_600_000, len: 600 } },
            Sub { name: "random-soup", kind: Kind::Random { f: random_soup, quick: 80_000, thorough: 1_600_000, len: 64 } },
        ],
        direct: Some(direct),
        selftest: Some(crate::rfc::selftest),
        fuzz: Some(FuzzSpec { target: "accrej", runs: 100000, max_len: 200, tag: "C07", seed_corpus: Some("accrej") }),
        insertion_order_stage: false,
    }
}
