//! C14 — in, nin, none_of, any_of, subset_of implement set membership

use crate::ast::*;
use crate::engine::*;
use crate::json::*;
use crate::libx::{self, LibErr};
use crate::oracle;
use crate::src::Src;
use serde_json::{json, Value};

pub const ID: &str = "C14";
const FUNCS: [&str; 5] = ["in", "nin", "none_of", "any_of", "subset_of"];

fn nm(s: &str) -> StrLit {
    StrLit::plain(s)
}
fn nseg(s: &str) -> Seg {
    Seg { desc: false, sels: vec![Sel::Name(nm(s))], dot: true }
}

/// element values: no integer meets a float of equal value (the statement leaves that case open)
fn gen_elem(src: &mut Src, depth: usize, floats: bool) -> J {
    if floats && src.chance(2, 5) {
        return J::Float(*src.pick(&[0.0, -0.0, 0.5, 1.5, -1.5, 2.5, 1e300]));
    }
    match src.weighted(&[30, 25, 8, 8, if depth > 0 { 15 } else { 0 }, if depth > 0 { 14 } else { 0 }]) {
        0 if floats => J::Float(*src.pick(&[0.0, -0.0, 0.5, 1.5, -1.5, 2.5])),
        0 => {
            if src.chance(1, 10) {
                // distinct integers that collapse when converted to f64
                if src.chance(1, 3) {
                    // ... and above i64::MAX, where the trait shows an integer only as a double
                    J::UInt(*src.pick(&[u64::MAX, u64::MAX - 1, 1u64 << 63, (1u64 << 63) + 1]))
                } else {
                    J::Int(*src.pick(&[(1i64 << 53) + 1, 1i64 << 53, (1i64 << 53) + 2, i64::MAX - 1, i64::MAX, -(1i64 << 53) - 1, -(1i64 << 53)]))
                }
            } else {
                J::Int(src.range(0, 4))
            }
        }
        // (strings with a quotation mark at an end: inch marks, `'t Hooft`, quoted words - a helper that trims
        // quotes from a pattern or a name must not be applied to them; a blank at an end likewise)
        1 => J::Str(src.pick(&["a", "b", "c", "", "1", "a", "b", "1", "15\"", "'t", "\"a\"", "'a'", "a'", "\"", " a", "a ", "A", "\u{e9}", "Z\u{fc}rich", "\u{65e5}\u{672c}\u{8a9e}", "\u{1d11e}", "e\u{301}"]).to_string()),
        2 => J::Null,
        3 => J::Bool(src.bool()),
        4 => {
            let n = src.below(3);
            J::Arr((0..n).map(|_| gen_elem(src, depth - 1, floats)).collect())
        }
        _ => {
            let n = src.below(3);
            let mut m: Vec<(String, J)> = vec![];
            for _ in 0..n {
                let k = src.pick(&["a", "b"]).to_string();
                if !m.iter().any(|(k2, _)| *k2 == k) {
                    m.push((k, gen_elem(src, depth - 1, floats)));
                }
            }
            J::Obj(m)
        }
    }
}

fn gen_list(src: &mut Src, floats: bool) -> J {
    // rarely a long list (beyond 16 / 32 / 64 elements)
    let n = if src.chance(1, 12) { *src.pick(&[16usize, 17, 31, 32, 33, 40, 64, 65]) } else { src.weighted(&[15, 20, 25, 20, 12, 8]) };
    J::Arr((0..n).map(|_| gen_elem(src, 1, floats)).collect())
}

/// something that is not an array (or nothing at all)
fn gen_non_array(src: &mut Src) -> Option<J> {
    match src.below(8) {
        0 => None,
        // a string that spells a JSON array is a string (other dialects would parse it)
        6 => Some(J::Str(src.pick(&["[]", "[1]", "[0, \"a\"]", "[\"a\",\"b\"]", "[null]", "[[1]]"]).to_string())),
        7 => Some(J::Obj(vec![])),
        1 => Some(J::Obj(vec![("0".into(), J::Int(1))])),
        2 => Some(J::Str("abc".into())),
        3 => Some(J::Int(1)),
        4 => Some(J::Null),
        _ => Some(J::Bool(true)),
    }
}

fn random_sets(src: &mut Src, obs: &mut Obs) -> Res {
    // all numbers of one case are integers, or all are floats (zeros of both signs are one value):
    // an integer never meets a float of equal value
    let floats = src.chance(1, 6);
    if floats {
        obs.label("numbers-are-floats");
    }
    let fname = *src.pick(&FUNCS);
    let elem_is_scalar_arg = fname == "in" || fname == "nin";
    // second argument: an array most of the time
    let (bval, b_label): (Option<J>, &str) = if src.chance(1, 5) { (gen_non_array(src), "second-not-array-or-missing") } else { (Some(gen_list(src, floats)), "second-array") };
    let nelem = 1 + src.below(5);
    let mut elems = vec![];
    for _ in 0..nelem {
        // first argument per element
        let a: Option<J> = if elem_is_scalar_arg {
            match (&bval, src.below(4)) {
                (Some(J::Arr(l)), 0 | 1) if !l.is_empty() => Some(l[src.below(l.len())].clone()),
                (_, 3) => None,
                _ => Some(gen_elem(src, 1, floats)),
            }
        } else {
            match (&bval, src.below(6)) {
                (Some(J::Arr(l)), 0) => {
                    // a sub-multiset of the list (subset_of true, any_of true unless empty)
                    let sub: Vec<J> = l.iter().filter(|_| src.bool()).cloned().collect();
                    Some(J::Arr(sub))
                }
                (Some(J::Arr(l)), 1) if !l.is_empty() => {
                    let mut v = vec![l[src.below(l.len())].clone()];
                    v.push(gen_elem(src, 1, floats));
                    Some(J::Arr(v))
                }
                (_, 2) => Some(J::Arr(vec![])),
                (_, 3) => gen_non_array(src),
                _ => Some(gen_list(src, floats)),
            }
        };
        let mut m = vec![];
        if let Some(a) = a {
            m.push(("k".to_string(), a));
        }
        m.push(("id".to_string(), J::Int(elems.len() as i64)));
        elems.push(J::Obj(m));
    }
    // where the second argument lives
    let b_place = src.below(3);
    let mut root: Vec<(String, J)> = vec![];
    if let Some(b) = &bval {
        match b_place {
            0 => root.push(("l".into(), b.clone())),
            1 => root.push(("m".into(), J::Obj(vec![("n".into(), b.clone())]))),
            _ => {
                for e in elems.iter_mut() {
                    if let J::Obj(m) = e {
                        m.push(("own".into(), b.clone()));
                    }
                }
            }
        }
    }
    let elems_value = J::Arr(elems);
    // also: the list reached through an index step, negative or not ($.ll[-1] and $.ll[1] are the same node)
    let via_index = b_place == 0 && bval.is_some() && src.chance(1, 3);
    if via_index {
        if let Some(b) = &bval {
            root.push(("ll".into(), J::Arr(vec![J::Arr(vec![J::Str("decoy".into())]), b.clone()])));
        }
    }
    let idx_seg = |i: i64| Seg { desc: false, sels: vec![Sel::Index(i)], dot: false };
    let barg = match b_place {
        0 if via_index => Arg::Q(Query { abs: true, segs: vec![nseg("ll"), idx_seg(if src.bool() { -1 } else { 1 })] }),
        0 => Arg::Q(Query { abs: true, segs: vec![nseg("l")] }),
        1 => Arg::Q(Query { abs: true, segs: vec![nseg("m"), nseg("n")] }),
        _ => Arg::Q(Query { abs: false, segs: vec![nseg("own")] }),
    };
    root.push(("e".into(), elems_value));
    let doc = J::Obj(root).sorted();
    let aarg = Arg::Q(Query { abs: false, segs: vec![nseg("k")] });
    let f = Func { name: fname.into(), args: vec![aarg, barg] };
    let neg = src.chance(1, 4);
    let e = Expr::Test(neg, Box::new(TestE::F(f)));
    let q = Query { abs: true, segs: vec![nseg("e"), Seg { desc: false, sels: vec![Sel::Filter(e)], dot: false }] };
    obs.label(fname);
    obs.label(b_label);
    check(&q, &doc, obs)
}

/// first argument forms: `@` itself, `@[0]`, a primitive literal
fn random_forms(src: &mut Src, obs: &mut Obs) -> Res {
    let floats = src.chance(1, 6);
    let list = gen_list(src, floats);
    let fname = *src.pick(&["in", "nin"]);
    let nelem = 1 + src.below(5);
    let elems: Vec<J> = (0..nelem)
        .map(|_| match (&list, src.bool()) {
            (J::Arr(l), true) if !l.is_empty() => l[src.below(l.len())].clone(),
            _ => gen_elem(src, 1, floats),
        })
        .collect();
    let form = src.below(6);
    // length() / count() yield integers: not in a case whose numbers are floats (an integer meeting a float
    // of equal value is the one case the property leaves open)
    let form = if form == 5 && floats { 0 } else { form };
    let relq = |sels: Vec<Sel>| Query { abs: false, segs: vec![Seg { desc: false, sels, dot: false }] };
    let (aarg, elems): (Arg, Vec<J>) = match form {
        // the result of another function as first argument: `value()` of a query that selects one node
        // (the node), none or several (nothing: the argument is missing), `length()` / `count()`
        4 => (
            Arg::F(Func { name: "value".into(), args: vec![Arg::Q(relq(vec![Sel::Wild]))] }),
            elems.into_iter().map(|x| match src.below(4) {
                0 => J::Arr(vec![]),
                1 => J::Arr(vec![x.clone(), x]),
                2 => J::Obj(vec![("k".into(), x)]),
                _ => J::Arr(vec![x]),
            }).collect(),
        ),
        5 => {
            let f = if src.bool() { "length" } else { "count" };
            let arg = if f == "length" { Arg::Q(Query { abs: false, segs: vec![] }) } else { Arg::Q(relq(vec![Sel::Wild])) };
            (
                Arg::F(Func { name: f.into(), args: vec![arg] }),
                elems.into_iter().map(|x| match src.below(5) {
                    0 => J::Arr(vec![x]),
                    1 => J::Arr(vec![x.clone(), J::Null, x]),
                    2 => J::Obj(vec![("k".into(), x.clone()), ("l".into(), x)]),
                    3 => J::Obj(vec![("k".into(), x)]),
                    _ => J::Str("ab".into()),
                }).collect(),
            )
        }
        3 => (
            Arg::Q(Query { abs: false, segs: vec![Seg { desc: false, sels: vec![Sel::Index(-1)], dot: false }] }),
            elems.into_iter().map(|x| if src.chance(1, 6) { J::Arr(vec![]) } else { J::Arr(vec![if floats { J::Float(9.5) } else { J::Int(9) }, x]) }).collect(),
        ),
        0 => (Arg::Q(Query { abs: false, segs: vec![] }), elems),
        1 => (
            Arg::Q(Query { abs: false, segs: vec![Seg { desc: false, sels: vec![Sel::Index(0)], dot: false }] }),
            elems.into_iter().map(|x| if src.chance(1, 6) { J::Arr(vec![]) } else { J::Arr(vec![x, if floats { J::Float(9.5) } else { J::Int(9) }]) }).collect(),
        ),
        _ => {
            let lit = match src.below(5) {
                0 if floats => Lit::Num(num_lit_float(*src.pick(&[0.0, -0.0, 0.5, 1.5]))),
                0 => Lit::Num(num_lit_int(src.range(0, 4))),
                1 => Lit::Str(StrLit::plain(*src.pick(&["a", "b", "c", "", "1", "(", "f(x)", ")", "15\"", "'t", "\"a\"", "'a'", "a'", "\"", " a", "A", "\u{e9}", "Z\u{fc}rich", "\u{65e5}\u{672c}\u{8a9e}", "\u{1d11e}"]))),
                2 => Lit::Null,
                3 => Lit::Bool(true),
                _ => Lit::Bool(false),
            };
            (Arg::Lit(lit), elems)
        }
    };
    // the list argument: the singular query `$.lst`, or a query of another shape (descendant, wildcard,
    // slice, union, filter) that selects exactly that one node, or no node at all (argument missing)
    let doc = J::Obj(vec![("e".into(), J::Arr(elems)), ("lst".into(), list.clone()), ("w".into(), J::Arr(vec![list]))]).sorted();
    let seg = |sels: Vec<Sel>, desc: bool| Seg { desc, sels, dot: false };
    let lform = src.weighted(&[40, 10, 10, 10, 10, 10, 10]);
    let lsegs: Vec<Seg> = match lform {
        0 => vec![nseg("lst")],
        1 => vec![seg(vec![Sel::Name(nm("lst"))], true)],
        2 => vec![nseg("w"), seg(vec![Sel::Wild], false)],
        3 => vec![nseg("w"), seg(vec![Sel::Slice(Some(0), Some(1), None, false)], false)],
        4 => vec![seg(vec![Sel::Name(nm("lst")), Sel::Name(nm("absent"))], false)],
        5 => vec![nseg("w"), seg(vec![Sel::Filter(Expr::Cmp(Box::new(Cmpable::Sing(Sing { abs: false, steps: vec![] })), Op::Eq, Box::new(Cmpable::Sing(Sing { abs: true, steps: vec![SingStep::Name(nm("lst"), true)] }))))], false)],
        _ => vec![nseg("w"), seg(vec![Sel::Slice(Some(1), None, None, false)], false)],
    };
    let f = Func { name: fname.into(), args: vec![aarg, Arg::Q(Query { abs: true, segs: lsegs })] };
    let e = Expr::Test(src.chance(1, 4), Box::new(TestE::F(f)));
    let q = Query { abs: true, segs: vec![nseg("e"), Seg { desc: false, sels: vec![Sel::Filter(e)], dot: false }] };
    obs.label(["first-arg-@", "first-arg-@[0]", "first-arg-literal", "first-arg-@[-1]", "first-arg-value(@.*)", "first-arg-length/count"][form]);
    obs.label(["list-arg-$.lst", "list-arg-$..lst", "list-arg-$.w[*]", "list-arg-$.w[0:1]", "list-arg-union-with-absent", "list-arg-filter", "list-arg-selects-nothing"][lform]);
    check(&q, &doc, obs)
}

/// the list is changed in place (same address, same length) between two evaluations
fn random_mutated_list(src: &mut Src, obs: &mut Obs) -> Res {
    let fname = *src.pick(&FUNCS);
    let n = *src.pick(&[3usize, 16, 17, 40]);
    let word = |src: &mut Src| J::Str(format!("w{}", src.below(60)));
    let list: Vec<J> = (0..n).map(|_| word(src)).collect();
    let elem = |src: &mut Src, list: &Vec<J>| -> J {
        if fname == "in" || fname == "nin" {
            if src.bool() { list[src.below(list.len())].clone() } else { word(src) }
        } else {
            let k = src.below(4);
            J::Arr((0..k).map(|_| if src.bool() { list[src.below(list.len())].clone() } else { word(src) }).collect())
        }
    };
    let elems: Vec<J> = (0..4).map(|_| J::Obj(vec![("k".into(), elem(src, &list))])).collect();
    let doc = J::Obj(vec![("e".into(), J::Arr(elems)), ("l".into(), J::Arr(list.clone()))]).sorted();
    let f = Func { name: fname.into(), args: vec![Arg::Q(Query { abs: false, segs: vec![nseg("k")] }), Arg::Q(Query { abs: true, segs: vec![nseg("l")] })] };
    let q = Query { abs: true, segs: vec![nseg("e"), Seg { desc: false, sels: vec![Sel::Filter(Expr::Test(false, Box::new(TestE::F(f))))], dot: false }] };
    let text = render_plain(&q);
    let mut v = doc.to_value();
    let mut model = doc.clone();
    obs.label("list-mutated-in-place");
    for round in 0..3 {
        obs.eval(1);
        let map = node_map(&v);
        let got: Vec<Option<Loc>> = match libx::query_with_path(&v, &map, &text) {
            Ok(n) => n.iter().map(|x| x.loc.clone()).collect(),
            Err(e) => return Err(Failure::new(format!("extension call failed: {:?}", e), json!({"query": text, "doc": v}))),
        };
        let exp: Vec<Option<Loc>> = oracle::eval(&q, &model, &oracle::Quirks::strict()).iter().map(|n| Some(n.loc())).collect();
        if got != exp {
            return Err(Failure::new(
                "an extension function gives a wrong answer after the list argument was changed in place",
                json!({"query": text, "doc_now": v, "round": round, "expected_kept": exp.len(), "library_kept": got.len()}),
            ));
        }
        // change one or two elements of the list in place: same allocation, same length
        for _ in 0..(1 + src.below(2)) {
            let i = src.below(n);
            let w = word(src);
            if let Some(slot) = v.get_mut("l").and_then(|l| l.get_mut(i)) {
                *slot = w.to_value();
            }
            if let Some(J::Arr(l)) = model.get_loc_mut(&[Step::Key("l".into())]) {
                l[i] = w;
            }
        }
    }
    obs.nontrivial(&(text.as_str(), doc.text()), || json!({"query": text, "doc": doc.to_value(), "rounds": 3}));
    Ok(())
}

fn kept(q: &Query, doc: &J, obs: &mut Obs) -> Result<Vec<Option<Loc>>, Failure> {
    let text = render_plain(q);
    let v = doc.to_value();
    let map = node_map(&v);
    obs.eval(1);
    match libx::query_with_path(&v, &map, &text) {
        Ok(n) => Ok(n.iter().map(|x| x.loc.clone()).collect()),
        Err(LibErr::Err(e)) => Err(Failure::new(format!("a call of a documented extension function returns Err: {}", e), json!({"query": text, "doc": doc.to_value()}))),
        Err(LibErr::Panic(p)) => Err(Failure::new(format!("panic: {}", p), json!({"query": text, "doc": doc.to_value()}))),
    }
}

fn check(q: &Query, doc: &J, obs: &mut Obs) -> Res {
    let text = render_plain(q);
    let got = kept(q, doc, obs)?;
    let exp: Vec<Option<Loc>> = oracle::eval(q, doc, &oracle::Quirks::strict()).iter().map(|n| Some(n.loc())).collect();
    obs.nontrivial(&(text.as_str(), doc.text()), || json!({"query": text, "doc": doc.to_value(), "kept": exp.len()}));
    if got != exp {
        return Err(Failure::new(
            "an extension function does not implement the documented set semantics",
            json!({"query": text, "doc": doc.to_value(),
                   "expected_kept": exp.iter().map(|l| normalized_path(l.as_ref().unwrap())).collect::<Vec<_>>(),
                   "library_kept": got.iter().map(|l| l.as_ref().map(|l| normalized_path(l))).collect::<Vec<_>>()}),
        ));
    }
    // complement laws on the library's own answers: swap in <-> nin, any_of <-> none_of
    if let Some(Seg { sels, .. }) = q.segs.last() {
        if let Sel::Filter(Expr::Test(neg, t)) = &sels[0] {
            if let TestE::F(f) = t.as_ref() {
                let dual = match f.name.as_str() {
                    "in" => Some("nin"),
                    "nin" => Some("in"),
                    "any_of" => Some("none_of"),
                    "none_of" => Some("any_of"),
                    _ => None,
                };
                if let Some(d) = dual {
                    let mut q2 = q.clone();
                    let f2 = Func { name: d.into(), args: f.args.clone() };
                    let last = q2.segs.len() - 1;
                    q2.segs[last].sels[0] = Sel::Filter(Expr::Test(*neg, Box::new(TestE::F(f2))));
                    let got2 = kept(&q2, doc, obs)?;
                    // for elements whose arguments are well-formed (per the oracle: exactly one of the pair holds)
                    let all: Vec<Option<Loc>> = {
                        let mut qa = q.clone();
                        qa.segs[last].sels[0] = Sel::Wild;
                        oracle::eval(&qa, doc, &oracle::Quirks::strict()).iter().map(|n| Some(n.loc())).collect()
                    };
                    let exp2: Vec<Option<Loc>> = oracle::eval(&q2, doc, &oracle::Quirks::strict()).iter().map(|n| Some(n.loc())).collect();
                    for l in &all {
                        let well_formed = exp.contains(l) != exp2.contains(l);
                        if well_formed && (got.contains(l) == got2.contains(l)) {
                            return Err(Failure::new(
                                format!("complement law violated: {} and {} agree on an element with well-formed arguments", f.name, d),
                                json!({"query": text, "dual_query": render_plain(&q2), "doc": doc.to_value(), "element": l.as_ref().map(|l| normalized_path(l))}),
                            ));
                        }
                    }
                }
            }
        }
    }
    Ok(())
}

fn direct(case: &Value, obs: &mut Obs) -> Res {
    let (q, _text, doc) = crate::props::c01::parse_direct(case)?;
    check(&q, &doc, obs)
}

pub fn prop() -> Prop {
    Prop {
        id: ID,
        rule: "documents {e: [elements], l | m.n | per-element `own`: second argument}; queries $.e[?f(A, B)] (also negated) for the five documented extension functions with A in {@.k, @, @[0], primitive literal} and B in {$.l, $.m.n, @.own} or a descendant / wildcard / slice / union / filter query that selects exactly the one list node (or nothing); \
               lists of arbitrary JSON values (nested, empty, duplicates), sub-multisets and near-subsets of the list, empty arrays, non-arrays, missing arguments. Oracle: set semantics with structural equality as the property states them; complement laws (in/nin, any_of/none_of) asserted on the library's own answers. \
               Non-trivial: every case (each evaluates a set function on document-dependent arguments). Distinct by (query text, document).",
        assumptions: vec![
            "arguments are literals, singular queries, or other queries that select exactly one node or none (a nodelist of several nodes as argument is not judged)",
            "no integer meets a float of equal value (the statement says `equals` without fixing that case): numbers are integers only (small ones, and distinct integers beyond 2^53 that collapse in f64)",
        ],
        subs: vec![
            Sub { name: "random-sets", kind: Kind::Random { f: random_sets, quick: 150_000, thorough: 3_000_000, len: 400 } },
            Sub { name: "random-mutated-list", kind: Kind::Random { f: random_mutated_list, quick: 40_000, thorough: 800_000, len: 300 } },
            Sub { name: "random-forms", kind: Kind::Random { f: random_forms, quick: 50_000, thorough: 1_000_000, len: 300 } },
        ],
        direct: Some(direct),
        selftest: Some(crate::rfc::selftest),
        fuzz: None,
        insertion_order_stage: false,
    }
}
