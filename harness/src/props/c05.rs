//! C05 — filter logic (Boolean algebra, precedence), existence tests, `@` / `$` scoping

use crate::ast::*;
use crate::engine::*;
use crate::json::*;
use crate::libx::{self, LibErr};
use crate::oracle::{self, Quirks};
use crate::src::Src;
use serde_json::{json, Value};

pub const ID: &str = "C05";

#[derive(Clone, Debug, PartialEq)]
pub enum F {
    Var(usize),
    Not(Box<F>),
    And(Box<F>, Box<F>),
    Or(Box<F>, Box<F>),
}

impl F {
    fn eval(&self, val: u32) -> bool {
        match self {
            F::Var(i) => val & (1 << i) != 0,
            F::Not(x) => !x.eval(val),
            F::And(a, b) => a.eval(val) && b.eval(val),
            F::Or(a, b) => a.eval(val) || b.eval(val),
        }
    }
    fn connectives(&self) -> usize {
        match self {
            F::Var(_) => 0,
            F::Not(x) => 1 + x.connectives(),
            F::And(a, b) | F::Or(a, b) => 1 + a.connectives() + b.connectives(),
        }
    }
    fn has_not(&self) -> bool {
        match self {
            F::Var(_) => false,
            F::Not(_) => true,
            F::And(a, b) | F::Or(a, b) => a.has_not() || b.has_not(),
        }
    }
    fn text(&self) -> String {
        match self {
            F::Var(i) => format!("p{}", i),
            F::Not(x) => format!("!{}", x.text()),
            F::And(a, b) => format!("({} & {})", a.text(), b.text()),
            F::Or(a, b) => format!("({} | {})", a.text(), b.text()),
        }
    }
}

/// the ways an atom's truth is controlled by the document
#[derive(Clone, Copy, Debug, PartialEq)]
pub enum AtomKind {
    Exists,
    CmpEq,
    Match,
    RootFlag,
    NestedQ,
    NestedSelf,
    CountPos,
    /// `@.p < 10`: false also for operands that are not ordered against a number
    CmpOrd,
    /// nested filter reached through a descendant segment: `@..[?@.r]`
    NestedDesc,
    /// nested filter inside a multi-selector bracket: `@[99, ?@.r]`
    NestedUnion,
    /// comparison of two singular queries, `@.p == @.o`: true also when both select nothing
    CmpTwoQueries,
    /// existence through a negative index, `@.l[-1]`
    ExistsNegIndex,
    /// existence of a nodelist (`@.w.*`, `@.w[0:2]`, `@.w..*`): true for one or several nodes whatever
    /// their values are, empty strings / arrays / objects included
    ExistsSeveral,
    /// a nested filter that is *not* the last segment of the test query, `@.n[?@.r].d`: true when some kept
    /// child has `d` - not necessarily the first kept one
    NestedThenMore,
    /// two filter selectors in neighbouring segments of the test query, `@.t[?@.r][?@.d]` (predicates chained
    /// by a query builder): true when some child of a kept row has `d`
    NestedTwice,
    /// a member called like a property of another dialect's arrays and strings, `@.f.length == 2`: true only
    /// for an object that has such a member - an array of two elements or a string of two characters has none
    ForeignProperty,
    /// existence below a member that other atoms go through as well, `@.s.x0` next to `@.s.x2`: the child may
    /// be a wrapper with the single member `s`
    ExistsShared,
}
pub const KINDS: [AtomKind; 17] = [
    AtomKind::Exists,
    AtomKind::CmpEq,
    AtomKind::Match,
    AtomKind::RootFlag,
    AtomKind::NestedQ,
    AtomKind::NestedSelf,
    AtomKind::CountPos,
    AtomKind::CmpOrd,
    AtomKind::NestedDesc,
    AtomKind::NestedUnion,
    AtomKind::CmpTwoQueries,
    AtomKind::ExistsNegIndex,
    AtomKind::ExistsSeveral,
    AtomKind::NestedThenMore,
    AtomKind::NestedTwice,
    AtomKind::ForeignProperty,
    AtomKind::ExistsShared,
];

fn nm(s: &str) -> StrLit {
    StrLit::plain(s)
}
fn nseg(s: &str) -> Seg {
    Seg { desc: false, sels: vec![Sel::Name(nm(s))], dot: true }
}
fn rel(segs: Vec<Seg>) -> Query {
    Query { abs: false, segs }
}

/// the member an atom of variable `i` looks at: each name is a textual beginning of the next (`p`, `p_s`,
/// `p_st`, `p_str`, like `id` / `id_str`), so that two tests in one formula differ only past the end of the
/// shorter name
fn pname(i: usize) -> String {
    ["p", "p_s", "p_st", "p_str", "p_stri", "p_strin", "p_string"].get(i).map(|s| s.to_string()).unwrap_or_else(|| format!("p_string{}", i))
}

/// the atom expression (un-negated) for variable `i`; negatable directly?
fn atom_expr(kind: AtomKind, i: usize) -> (Expr, bool) {
    let p = pname(i);
    let r = format!("r{}", i);
    match kind {
        AtomKind::Exists => (Expr::Test(false, Box::new(TestE::Q(rel(vec![nseg(&p)])))), true),
        AtomKind::CmpEq => (
            Expr::Cmp(
                Box::new(Cmpable::Sing(Sing { abs: false, steps: vec![SingStep::Name(nm(&p), true)] })),
                Op::Eq,
                Box::new(Cmpable::Lit(Lit::Num(num_lit_int(7)))),
            ),
            false,
        ),
        AtomKind::Match => (
            Expr::Test(
                false,
                Box::new(TestE::F(Func {
                    name: "match".into(),
                    args: vec![Arg::Q(rel(vec![nseg(&p)])), Arg::Lit(Lit::Str(nm("t.*")))],
                })),
            ),
            true,
        ),
        AtomKind::RootFlag => (Expr::Test(false, Box::new(TestE::Q(Query { abs: true, segs: vec![nseg(&format!("g{}", i))] }))), true),
        AtomKind::NestedQ => (
            Expr::Test(
                false,
                Box::new(TestE::Q(rel(vec![
                    nseg(&format!("q{}", i)),
                    Seg { desc: false, sels: vec![Sel::Filter(Expr::Test(false, Box::new(TestE::Q(rel(vec![nseg(&r)])))))], dot: false },
                ]))),
            ),
            true,
        ),
        AtomKind::NestedSelf => (
            Expr::Test(
                false,
                Box::new(TestE::Q(rel(vec![Seg {
                    desc: false,
                    sels: vec![Sel::Filter(Expr::Test(false, Box::new(TestE::Q(rel(vec![nseg(&r)])))))],
                    dot: false,
                }]))),
            ),
            true,
        ),
        AtomKind::CmpOrd => (
            Expr::Cmp(
                Box::new(Cmpable::Sing(Sing { abs: false, steps: vec![SingStep::Name(nm(&p), true)] })),
                if i % 2 == 0 { Op::Lt } else { Op::Ge },
                Box::new(Cmpable::Lit(Lit::Num(num_lit_int(10)))),
            ),
            false,
        ),
        AtomKind::NestedDesc => (
            Expr::Test(
                false,
                Box::new(TestE::Q(rel(vec![Seg {
                    desc: true,
                    sels: vec![Sel::Filter(Expr::Test(false, Box::new(TestE::Q(rel(vec![nseg(&r)])))))],
                    dot: false,
                }]))),
            ),
            true,
        ),
        AtomKind::NestedUnion => (
            Expr::Test(
                false,
                Box::new(TestE::Q(rel(vec![Seg {
                    desc: false,
                    sels: vec![Sel::Index(99), Sel::Filter(Expr::Test(false, Box::new(TestE::Q(rel(vec![nseg(&r)])))))],
                    dot: false,
                }]))),
            ),
            true,
        ),
        AtomKind::CmpTwoQueries => (
            Expr::Cmp(
                Box::new(Cmpable::Sing(Sing { abs: false, steps: vec![SingStep::Name(nm(&p), true)] })),
                if i % 2 == 0 { Op::Eq } else { Op::Le },
                Box::new(Cmpable::Sing(Sing { abs: false, steps: vec![SingStep::Name(nm(&format!("o{}", i)), true)] })),
            ),
            false,
        ),
        AtomKind::NestedThenMore => (
            Expr::Test(
                false,
                Box::new(TestE::Q(rel(vec![
                    nseg(&format!("n{}", i)),
                    Seg { desc: false, sels: vec![Sel::Filter(Expr::Test(false, Box::new(TestE::Q(rel(vec![nseg("r")])))))], dot: false },
                    nseg("d"),
                ]))),
            ),
            true,
        ),
        AtomKind::ExistsShared => (Expr::Test(false, Box::new(TestE::Q(rel(vec![nseg("s"), nseg(&format!("x{}", i))])))), true),
        AtomKind::ForeignProperty => (
            Expr::Cmp(
                Box::new(Cmpable::Sing(Sing { abs: false, steps: vec![SingStep::Name(nm(&format!("f{}", i)), true), SingStep::Name(nm(["length", "size", "count"][i % 3]), true)] })),
                if i % 2 == 0 { Op::Eq } else { Op::Ge },
                Box::new(Cmpable::Lit(Lit::Num(num_lit_int(2)))),
            ),
            false,
        ),
        AtomKind::NestedTwice => (
            Expr::Test(
                false,
                Box::new(TestE::Q(rel(vec![
                    nseg(&format!("t{}", i)),
                    Seg { desc: false, sels: vec![Sel::Filter(Expr::Test(false, Box::new(TestE::Q(rel(vec![nseg("r")])))))], dot: false },
                    Seg { desc: false, sels: vec![Sel::Filter(Expr::Test(false, Box::new(TestE::Q(rel(vec![nseg("d")])))))], dot: false },
                ]))),
            ),
            true,
        ),
        AtomKind::ExistsSeveral => (
            Expr::Test(
                false,
                Box::new(TestE::Q(rel(vec![
                    nseg(&format!("w{}", i)),
                    match i % 3 {
                        0 => Seg { desc: false, sels: vec![Sel::Wild], dot: true },
                        1 => Seg { desc: false, sels: vec![Sel::Slice(Some(0), Some(2), None, false)], dot: false },
                        _ => Seg { desc: true, sels: vec![Sel::Wild], dot: false },
                    },
                ]))),
            ),
            true,
        ),
        AtomKind::ExistsNegIndex => (
            Expr::Test(
                false,
                Box::new(TestE::Q(rel(vec![nseg(&format!("l{}", i)), Seg { desc: false, sels: vec![Sel::Index(if i % 2 == 0 { -1 } else { -2 })], dot: false }]))),
            ),
            true,
        ),
        AtomKind::CountPos => (
            Expr::Cmp(
                Box::new(Cmpable::F(Func {
                    name: "count".into(),
                    args: vec![Arg::Q(rel(vec![nseg(&format!("c{}", i)), Seg { desc: false, sels: vec![Sel::Wild], dot: true }]))],
                })),
                Op::Gt,
                Box::new(Cmpable::Lit(Lit::Num(num_lit_int(0)))),
            ),
            false,
        ),
    }
}

/// members that make atom `i` of kind `kind` true / false for a child (RootFlag: handled at the root)
fn atom_members(src: &mut Src, kind: AtomKind, i: usize, truth: bool, out: &mut Vec<(String, J)>) {
    let p = pname(i);
    let r = format!("r{}", i);
    let falsy = [J::Int(1), J::Null, J::Bool(false), J::Int(0), J::Str("".into()), J::Arr(vec![]), J::Obj(vec![])];
    match kind {
        AtomKind::Exists => {
            if truth {
                out.push((p, src.pick(&falsy).clone()));
            }
        }
        AtomKind::CmpEq => {
            if truth {
                out.push((p, if src.bool() { J::Int(7) } else { J::Float(7.0) }));
            } else {
                match src.below(4) {
                    0 => {}
                    1 => out.push((p, J::Int(8))),
                    2 => out.push((p, J::Str("7".into()))),
                    _ => out.push((p, J::Null)),
                }
            }
        }
        AtomKind::Match => {
            if truth {
                out.push((p, J::Str(src.pick(&["t", "tt", "tab"]).to_string())));
            } else {
                match src.below(4) {
                    0 => {}
                    1 => out.push((p, J::Str("at".into()))),
                    2 => out.push((p, J::Int(1))),
                    _ => out.push((p, J::Str("".into()))),
                }
            }
        }
        AtomKind::RootFlag => {}
        AtomKind::NestedQ => {
            let q = format!("q{}", i);
            if truth {
                let mut items = vec![J::Obj(vec![(r.clone(), src.pick(&falsy).clone())])];
                if src.bool() {
                    items.insert(0, J::Obj(vec![]));
                }
                out.push((q, J::Arr(items)));
            } else {
                match src.below(6) {
                    0 => {}
                    1 => out.push((q, J::Arr(vec![]))),
                    2 => out.push((q, J::Arr(vec![J::Obj(vec![]), J::Int(1)]))),
                    // the filter is applied to a scalar: selects nothing
                    4 => out.push((q, J::Str("scalar".into()))),
                    5 => out.push((q, J::Int(3))),
                    // the member sits on the container itself, not on one of its children
                    _ => out.push((q, J::Obj(vec![(r.clone(), J::Int(1))]))),
                }
            }
        }
        AtomKind::NestedSelf => {
            let n = format!("n{}", i);
            if truth {
                out.push((n, J::Obj(vec![(r.clone(), src.pick(&falsy).clone())])));
            } else if src.bool() {
                out.push((n, J::Obj(vec![])));
            }
        }
        AtomKind::CmpOrd => {
            // even i: `@.p < 10`, odd i: `@.p >= 10`
            let lt = i % 2 == 0;
            if truth {
                out.push((p, if lt { J::Int(src.range(-3, 9)) } else { if src.bool() { J::Int(src.range(10, 20)) } else { J::Float(10.0) } }));
            } else {
                match src.below(6) {
                    0 => {}
                    1 => out.push((p, if lt { J::Int(src.range(10, 20)) } else { J::Int(src.range(-3, 9)) })),
                    2 => out.push((p, J::Str("5".into()))),
                    3 => out.push((p, J::Null)),
                    4 => out.push((p, J::Arr(vec![J::Int(1)]))),
                    _ => out.push((p, J::Bool(true))),
                }
            }
        }
        AtomKind::NestedDesc => {
            let n = format!("d{}", i);
            if truth {
                // at depth 1 (a direct child of the child under test) or deeper
                let hit = J::Obj(vec![(r.clone(), src.pick(&falsy).clone())]);
                out.push((n, if src.bool() { hit } else { J::Arr(vec![J::Obj(vec![("w".into(), hit)])]) }));
            } else {
                match src.below(3) {
                    0 => {}
                    1 => out.push((n, J::Obj(vec![("w".into(), J::Arr(vec![J::Int(1)]))]))),
                    _ => out.push((n, J::Arr(vec![]))),
                }
            }
        }
        AtomKind::NestedUnion => {
            let n = format!("u{}", i);
            if truth {
                out.push((n, J::Obj(vec![(r.clone(), src.pick(&falsy).clone())])));
            } else if src.bool() {
                out.push((n, J::Obj(vec![])));
            }
        }
        AtomKind::CmpTwoQueries => {
            let o = format!("o{}", i);
            if truth {
                match src.below(3) {
                    // both select nothing
                    0 => {}
                    1 => {
                        let v = src.pick(&[J::Int(4), J::Str("s".into()), J::Null, J::Arr(vec![J::Int(1)])]).clone();
                        out.push((p, v.clone()));
                        out.push((o, v));
                    }
                    _ => {
                        out.push((p, J::Int(4)));
                        out.push((o, J::Float(4.0)));
                    }
                }
            } else {
                match src.below(4) {
                    0 => out.push((p, J::Int(4))),
                    1 => out.push((o, J::Null)),
                    2 => {
                        out.push((p, J::Int(5)));
                        out.push((o, J::Int(4)));
                    }
                    _ => {
                        out.push((p, J::Str("4".into())));
                        out.push((o, J::Int(4)));
                    }
                }
            }
        }
        AtomKind::NestedThenMore => {
            let n = format!("n{}", i);
            let kept = |d: Option<J>| {
                let mut m = vec![("r".to_string(), J::Int(1))];
                if let Some(d) = d {
                    m.push(("d".to_string(), d));
                }
                J::Obj(m)
            };
            let hollow = src.pick(&[J::Null, J::Bool(false), J::Int(0), J::Str("".into()), J::Arr(vec![])]).clone();
            if truth {
                // the kept child that has `d` comes first, last, or in the middle of kept children without it
                let items = match src.below(4) {
                    0 => vec![kept(Some(hollow))],
                    1 => vec![kept(None), kept(Some(hollow))],
                    2 => vec![kept(None), J::Obj(vec![("d".to_string(), J::Int(1))]), kept(None), kept(Some(hollow)), kept(None)],
                    _ => vec![J::Int(3), kept(None), kept(None), kept(Some(hollow))],
                };
                out.push((n, J::Arr(items)));
            } else {
                match src.below(4) {
                    0 => {}
                    1 => out.push((n, J::Arr(vec![kept(None), kept(None)]))),
                    2 => out.push((n, J::Arr(vec![J::Obj(vec![("d".to_string(), J::Int(1))]), kept(None)]))),
                    _ => out.push((n, J::Arr(vec![]))),
                }
            }
        }
        AtomKind::ExistsShared => {
            // (members called `s` are merged into one object when the child is put together)
            let hollow = src.pick(&[J::Null, J::Bool(false), J::Int(0), J::Str("".into()), J::Arr(vec![]), J::Obj(vec![])]).clone();
            if truth {
                out.push(("s".to_string(), J::Obj(vec![(format!("x{}", i), hollow)])));
            } else if src.bool() {
                out.push(("s".to_string(), J::Obj(vec![])));
            }
        }
        AtomKind::ForeignProperty => {
            let f = format!("f{}", i);
            let prop = ["length", "size", "count"][i % 3];
            if truth {
                out.push((f, J::Obj(vec![(prop.to_string(), J::Int(2)), ("x".to_string(), J::Int(0))])));
            } else {
                match src.below(6) {
                    0 => {}
                    1 => out.push((f, J::Arr(vec![J::Int(1), J::Int(2)]))),
                    2 => out.push((f, J::Str("ab".into()))),
                    3 => out.push((f, J::Obj(vec![("a".to_string(), J::Int(1)), ("b".to_string(), J::Int(2))]))),
                    4 => out.push((f, J::Obj(vec![(prop.to_string(), J::Int(1))]))),
                    _ => out.push((f, J::Arr(vec![J::Obj(vec![(prop.to_string(), J::Int(2))]), J::Int(2), J::Int(3)]))),
                }
            }
        }
        AtomKind::NestedTwice => {
            let t = format!("t{}", i);
            let hollow = src.pick(&[J::Null, J::Bool(false), J::Int(0), J::Str("".into()), J::Arr(vec![])]).clone();
            let row = |r: bool, inner: J| {
                let mut m = vec![];
                if r {
                    m.push(("r".to_string(), J::Int(1)));
                }
                m.push(("c".to_string(), inner));
                J::Obj(m)
            };
            let with_d = J::Obj(vec![("d".to_string(), hollow)]);
            let without_d = J::Obj(vec![("e".to_string(), J::Int(1))]);
            if truth {
                let items = match src.below(3) {
                    0 => vec![row(true, with_d)],
                    1 => vec![row(false, with_d.clone()), row(true, without_d), row(true, with_d)],
                    // the holder of `d` is not the first child of the kept row, and the row is not the first element
                    _ => vec![J::Int(3), J::Obj(vec![("r".to_string(), J::Int(1)), ("b".to_string(), without_d), ("c".to_string(), with_d)])],
                };
                out.push((t, J::Arr(items)));
            } else {
                match src.below(5) {
                    0 => {}
                    1 => out.push((t, J::Arr(vec![row(true, without_d)]))),
                    // the holder of `d` sits in a row that is not kept
                    2 => out.push((t, J::Arr(vec![row(false, with_d), row(true, J::Int(1))]))),
                    // `d` on the kept row itself, not on one of its children
                    3 => out.push((t, J::Arr(vec![J::Obj(vec![("r".to_string(), J::Int(1)), ("d".to_string(), J::Int(1))])]))),
                    _ => out.push((t, J::Arr(vec![]))),
                }
            }
        }
        AtomKind::ExistsSeveral => {
            let w = format!("w{}", i);
            let hollow = [J::Str("".into()), J::Arr(vec![]), J::Obj(vec![]), J::Null, J::Bool(false), J::Int(0)];
            if truth {
                let n = 1 + src.below(3);
                out.push((w, J::Arr((0..n).map(|_| src.pick(&hollow).clone()).collect())));
            } else {
                match src.below(3) {
                    0 => {}
                    1 => out.push((w, J::Arr(vec![]))),
                    _ => out.push((w, J::Str("ab".into()))),
                }
            }
        }
        AtomKind::ExistsNegIndex => {
            let l = format!("l{}", i);
            let need = if i % 2 == 0 { 1 } else { 2 };
            if truth {
                let n = need + src.below(3);
                out.push((l, J::Arr((0..n).map(|_| src.pick(&falsy).clone()).collect())));
            } else {
                match src.below(4) {
                    0 => {}
                    1 => out.push((l, J::Arr((0..need - 1).map(|_| J::Int(1)).collect()))),
                    2 => out.push((l, J::Obj(vec![("-1".into(), J::Int(1))]))),
                    _ => out.push((l, J::Str("ab".into()))),
                }
            }
        }
        AtomKind::CountPos => {
            let c = format!("c{}", i);
            if truth {
                out.push((c, if src.bool() { J::Arr(vec![J::Null]) } else { J::Obj(vec![("z".into(), J::Bool(false))]) }));
            } else {
                match src.below(3) {
                    0 => {}
                    1 => out.push((c, J::Arr(vec![]))),
                    _ => out.push((c, J::Int(3))),
                }
            }
        }
    }
}

/// formula -> expression with minimal parentheses (`paren_extra`: add redundant ones here and there)
fn to_expr(f: &F, kinds: &[AtomKind], src: &mut Src, paren_extra: bool) -> Expr {
    let e = match f {
        F::Var(i) => atom_expr(kinds[*i], *i).0,
        F::Not(x) => match x.as_ref() {
            F::Var(i) => {
                let (a, negatable) = atom_expr(kinds[*i], *i);
                if negatable && !(paren_extra && src.chance(1, 3)) {
                    match a {
                        Expr::Test(_, t) => Expr::Test(true, t),
                        other => Expr::Paren(true, Box::new(other)),
                    }
                } else {
                    Expr::Paren(true, Box::new(a))
                }
            }
            other => Expr::Paren(true, Box::new(to_expr(other, kinds, src, paren_extra))),
        },
        F::And(..) => {
            let mut parts = vec![];
            fn collect<'a>(f: &'a F, parts: &mut Vec<&'a F>) {
                if let F::And(a, b) = f {
                    collect(a, parts);
                    collect(b, parts);
                } else {
                    parts.push(f);
                }
            }
            collect(f, &mut parts);
            Expr::And(
                parts
                    .into_iter()
                    .map(|p| {
                        let e = to_expr(p, kinds, src, paren_extra);
                        if matches!(p, F::Or(..)) {
                            Expr::Paren(false, Box::new(e))
                        } else {
                            e
                        }
                    })
                    .collect(),
            )
        }
        F::Or(..) => {
            let mut parts = vec![];
            fn collect<'a>(f: &'a F, parts: &mut Vec<&'a F>) {
                if let F::Or(a, b) = f {
                    collect(a, parts);
                    collect(b, parts);
                } else {
                    parts.push(f);
                }
            }
            collect(f, &mut parts);
            Expr::Or(parts.into_iter().map(|p| to_expr(p, kinds, src, paren_extra)).collect())
        }
    };
    if paren_extra && src.chance(1, 4) {
        Expr::Paren(false, Box::new(e))
    } else {
        e
    }
}

/// `more`: further formulas written as further filter selectors of the same bracketed selection
/// (`[?f, ?g]`): each contributes its own kept children, one selector after the other
fn check_formula(f: &F, more: &[F], k: usize, kinds: &[AtomKind], src: &mut Src, as_object: bool, paren_extra: bool, obs: &mut Obs) -> Res {
    check_formula_on(f, more, k, kinds, src, as_object, paren_extra, false, obs)
}

/// `multi`: the filter is applied to several input nodes at once (`$.hs[*][?f]`): two copies of the holder
/// with scalars and empty containers between them; each input node contributes its own kept children
#[allow(clippy::too_many_arguments)]
fn check_formula_on(f: &F, more: &[F], k: usize, kinds: &[AtomKind], src: &mut Src, as_object: bool, paren_extra: bool, multi: bool, obs: &mut Obs) -> Res {
    // root flags: a RootFlag atom is constant over the children; give it a random truth for this document
    let mut root: Vec<(String, J)> = vec![];
    let mut flag_truth = vec![false; k];
    for i in 0..k {
        if kinds[i] == AtomKind::RootFlag {
            flag_truth[i] = src.bool();
            if flag_truth[i] {
                root.push((format!("g{}", i), src.pick(&[J::Null, J::Bool(false), J::Int(0), J::Str("".into())]).clone()));
            }
        }
    }
    // one child per valuation of the non-constant atoms
    let with_id = true;
    let mut children: Vec<(u32, J)> = vec![];
    for val in 0..(1u32 << k) {
        if (0..k).any(|i| kinds[i] == AtomKind::RootFlag && ((val >> i) & 1 == 1) != flag_truth[i]) {
            continue;
        }
        let mut m = vec![];
        for i in 0..k {
            atom_members(src, kinds[i], i, (val >> i) & 1 == 1, &mut m);
        }
        // atoms that share the member `s` contribute to one object
        let mut merged: Vec<(String, J)> = vec![];
        for (k2, v2) in m {
            if k2 == "s" {
                if let Some((_, J::Obj(prev))) = merged.iter_mut().find(|(k3, _)| k3 == "s") {
                    if let J::Obj(more) = v2 {
                        prev.extend(more);
                    }
                    continue;
                }
            }
            merged.push((k2, v2));
        }
        let mut m = merged;
        if with_id {
            m.push(("id".to_string(), J::Int(val as i64)));
        }
        children.push((val, J::Obj(m)));
    }
    // a few children that are not objects at all (numbers, strings, null, arrays): every `@.x` selects
    // nothing for them; what the filter must do with them is taken from the reference evaluator
    let extras: Vec<J> = if src.chance(1, 2) {
        (0..1 + src.below(3)).map(|_| src.pick(&[J::Int(3), J::Str("x".into()), J::Null, J::Bool(false), J::Arr(vec![]), J::Arr(vec![J::Int(1), J::Int(2)]), J::Float(0.5)]).clone()).collect()
    } else {
        vec![]
    };
    let holder = if as_object {
        let mut m: Vec<(String, J)> = children.iter().map(|(v, c)| (format!("v{:02}", v), c.clone())).collect();
        for (i, x) in extras.iter().enumerate() {
            m.push((format!("x{:02}", i), x.clone()));
        }
        J::Obj(m)
    } else {
        let mut a: Vec<J> = children.iter().map(|(_, c)| c.clone()).collect();
        a.extend(extras.iter().cloned());
        J::Arr(a)
    };
    if multi {
        let between = |src: &mut Src| src.pick(&[J::Int(7), J::Str("s".into()), J::Null, J::Arr(vec![]), J::Obj(vec![]), J::Bool(true)]).clone();
        let hs = vec![between(src), holder.clone(), between(src), between(src), holder.clone(), between(src)];
        root.push(("hs".to_string(), J::Arr(hs)));
    } else {
        root.push(("h".to_string(), holder));
    }
    let doc = J::Obj(root).sorted();
    let e = to_expr(f, kinds, src, paren_extra);
    let mut sels = vec![Sel::Filter(e)];
    for g in more {
        sels.push(Sel::Filter(to_expr(g, kinds, src, paren_extra)));
    }
    let all_fs: Vec<&F> = std::iter::once(f).chain(more.iter()).collect();
    let q = if multi {
        Query { abs: true, segs: vec![nseg("hs"), Seg { desc: false, sels: vec![Sel::Wild], dot: false }, Seg { desc: false, sels, dot: false }] }
    } else {
        Query { abs: true, segs: vec![nseg("h"), Seg { desc: false, sels, dot: false }] }
    };
    let blanks = src.chance(1, 3);
    let text = crate::gen::render_with_blanks(src, &q, blanks);
    // expected: satisfying valuations in original order
    let kept = |flip: u32| -> Vec<i64> { all_fs.iter().flat_map(|f| children.iter().filter(|(v, _)| f.eval(*v ^ flip)).map(|(v, _)| *v as i64).collect::<Vec<_>>()).collect() };
    let exp_ids: Vec<i64> = if multi { [kept(0), kept(0)].concat() } else { kept(0) };
    // harness self-consistency: the reference evaluator must agree with plain Boolean evaluation
    let oracle_nodes = oracle::eval(&q, &doc, &Quirks::strict());
    let via_oracle: Vec<i64> = oracle_nodes
        .iter()
        .filter_map(|n| match n.v.get_loc(&[Step::Key("id".into())]) {
            Some(J::Int(i)) => Some(*i),
            _ => None,
        })
        .collect();
    // kept children that are not valuation objects (the primitive extras), by location
    let exp_extra_locs: Vec<Loc> = oracle_nodes.iter().filter(|n| !matches!(n.v.get_loc(&[Step::Key("id".into())]), Some(J::Int(_)))).map(|n| n.loc()).collect();
    if via_oracle != exp_ids {
        return Err(Failure::new(
            "harness inconsistency: reference evaluator and Boolean evaluation of the formula disagree",
            json!({"query": text, "doc": doc.to_value(), "formula": f.text(), "boolean": exp_ids, "oracle": via_oracle}),
        ));
    }
    let v = doc.to_value();
    let map = node_map(&v);
    obs.eval(1);
    let nested = kinds[..k].iter().any(|x| matches!(x, AtomKind::NestedQ | AtomKind::NestedSelf | AtomKind::NestedDesc | AtomKind::NestedUnion | AtomKind::NestedThenMore | AtomKind::NestedTwice));
    let varying = !exp_ids.is_empty() && exp_ids.len() < children.len() * all_fs.len() * if multi { 2 } else { 1 };
    if !more.is_empty() {
        obs.label("several-filter-selectors");
    }
    if (f.connectives() >= 2 || f.has_not() || nested || !more.is_empty()) && varying {
        obs.nontrivial(&(text.as_str(), doc.text()), || json!({"query": text, "doc": doc.to_value(), "formula": f.text(), "kept_ids": exp_ids}));
    }
    obs.label(if as_object { "children-of-object" } else { "children-of-array" });
    if f.has_not() {
        obs.label("negation");
    }
    if nested {
        obs.label("nested-filter-atom");
    }
    let got = match libx::query_with_path(&v, &map, &text) {
        Ok(n) => n,
        Err(LibErr::Err(e)) => return Err(Failure::new(format!("valid filter rejected: {}", e), json!({"query": text, "doc": doc.to_value()}))),
        Err(LibErr::Panic(p)) => return Err(Failure::new(format!("panic: {}", p), json!({"query": text, "doc": doc.to_value()}))),
    };
    let got_ids: Vec<i64> = got.iter().filter_map(|n| n.val.get("id").and_then(|x| x.as_i64())).collect();
    let got_extra_locs: Vec<Loc> = got.iter().filter(|n| n.val.get("id").and_then(|x| x.as_i64()).is_none()).filter_map(|n| n.loc.clone()).collect();
    if got_extra_locs != exp_extra_locs {
        return Err(Failure::new(
            "the filter treats children that are not objects (numbers, strings, null, arrays) wrongly",
            json!({"query": text, "doc": doc.to_value(), "formula": f.text(),
                   "expected_kept_primitives": exp_extra_locs.iter().map(|l| normalized_path(l)).collect::<Vec<_>>(),
                   "library_kept_primitives": got_extra_locs.iter().map(|l| normalized_path(l)).collect::<Vec<_>>()}),
        ));
    }
    // `$` is the root of the document being queried *now*: the query parsed once is evaluated on this
    // document and then on a variant with every root flag flipped, stored at the same address
    if multi {
        obs.label("filter-over-several-input-nodes");
    }
    if kinds[..k].iter().any(|x| *x == AtomKind::RootFlag) && got_ids == exp_ids && !multi {
        if let Ok(ast) = libx::parse(&text) {
            let mut root2: Vec<(String, J)> = vec![];
            let mut flip_mask = 0u32;
            for i in 0..k {
                if kinds[i] == AtomKind::RootFlag {
                    flip_mask |= 1 << i;
                    if !flag_truth[i] {
                        root2.push((format!("g{}", i), J::Int(1)));
                    }
                }
            }
            if let J::Obj(m) = &doc {
                if let Some(h) = m.iter().find(|(k2, _)| k2 == "h") {
                    root2.push(h.clone());
                }
            }
            let doc2 = J::Obj(root2).sorted();
            // the children are the same objects; a child built for valuation v now sees the valuation v ^ flip_mask
            let exp2: Vec<i64> = kept(flip_mask);
            let mut slot: Value = v.clone();
            let ids = |r: Vec<libx::LibNode>| -> Vec<i64> { r.iter().filter_map(|n| n.val.get("id").and_then(|x| x.as_i64())).collect() };
            let empty = std::collections::HashMap::new();
            obs.eval(2);
            let first = libx::process(&slot, &empty, &ast).map(ids);
            slot.clone_from(&doc2.to_value());
            let second = libx::process(&slot, &empty, &ast).map(ids);
            if first.as_ref().ok() != Some(&exp_ids) || second.as_ref().ok() != Some(&exp2) {
                return Err(Failure::new(
                    "`$` does not denote the root of the document being queried: a query parsed once gives a wrong result on a second document stored at the same address",
                    json!({"query": text, "first_doc": doc.to_value(), "second_doc": doc2.to_value(), "formula": f.text(),
                           "expected_ids_first": exp_ids, "library_first": format!("{:?}", first), "expected_ids_second": exp2, "library_second": format!("{:?}", second)}),
                ));
            }
        }
    }
    if got_ids != exp_ids {
        return Err(Failure::new(
            "the filter does not keep exactly the children for which its logical expression is true (in order)",
            json!({"query": text, "doc": doc.to_value(), "formula": f.text(), "expected_ids": exp_ids, "library_ids": got_ids,
                   "atoms": kinds[..k].iter().map(|x| format!("{:?}", x)).collect::<Vec<_>>()}),
        ));
    }
    Ok(())
}

fn all_formulas(vars: usize, conn: usize) -> Vec<F> {
    // all formula trees with exactly `conn` connectives over `vars` variables
    if conn == 0 {
        return (0..vars).map(F::Var).collect();
    }
    let mut out = vec![];
    for x in all_formulas(vars, conn - 1) {
        out.push(F::Not(Box::new(x)));
    }
    for left in 0..conn {
        let right = conn - 1 - left;
        for a in all_formulas(vars, left) {
            for b in all_formulas(vars, right) {
                out.push(F::And(Box::new(a.clone()), Box::new(b.clone())));
                out.push(F::Or(Box::new(a.clone()), Box::new(b)));
            }
        }
    }
    out
}

fn exhaustive(obs: &mut Obs, thorough: bool) -> Res {
    // every formula with <= 3 connectives over 3 atoms, atom kinds rotated deterministically
    let choices: Vec<u32> = (0..4096u32).map(|i| i.wrapping_mul(2654435761)).collect();
    let mut n = 0u64;
    let max_conn = 3;
    for conn in 0..=max_conn {
        for (idx, f) in all_formulas(3, conn).iter().enumerate() {
            let rounds = if thorough { 4 } else { 1 };
            for r in 0..rounds {
                let mut src = Src::new(&choices[(idx * 7 + r * 131) % 2048..]);
                let kinds: Vec<AtomKind> = (0..3).map(|i| KINDS[(idx + i * 3 + conn + r) % KINDS.len()]).collect();
                check_formula(f, &[], 3, &kinds, &mut src, (idx + r) % 2 == 1, false, obs)?;
                n += 1;
            }
        }
    }
    obs.boxes.push(json!({"box": "all formulas with <= 3 connectives (!, &&, ||) over 3 atoms, minimal parentheses, each on its full truth table", "formulas": n, "exhaustive": true}));
    Ok(())
}

fn gen_formula(src: &mut Src, k: usize, depth: usize) -> F {
    if depth == 0 || src.chance(1, 4) {
        return F::Var(src.below(k));
    }
    match src.weighted(&[25, 37, 38]) {
        0 => F::Not(Box::new(gen_formula(src, k, depth - 1))),
        1 => F::And(Box::new(gen_formula(src, k, depth - 1)), Box::new(gen_formula(src, k, depth - 1))),
        _ => F::Or(Box::new(gen_formula(src, k, depth - 1)), Box::new(gen_formula(src, k, depth - 1))),
    }
}

/// arrays (and objects) of SCALAR children with runs of equal and of almost equal neighbours - repeated flags
/// and codes, `1` next to `1.0`, 64-bit ids issued one after the other: every child is judged on its own value,
/// whatever its neighbour was
fn random_scalar_runs(src: &mut Src, obs: &mut Obs) -> Res {
    let base: i64 = *src.pick(&[1585341984679469056, 9007199254740992, 1700000000000000000, 5, 100]);
    let pool: Vec<J> = vec![
        J::Int(base), J::Int(base + 1), J::Int(base + 2), J::Int(base - 1), J::Int(12), J::Float(12.0), J::Int(1), J::Float(1.0), J::Float(0.0), J::Float(-0.0), J::Int(0),
        J::Str("a".into()), J::Str("a".into()), J::Str("b".into()), J::Bool(true), J::Bool(false), J::Null, J::Null,
    ];
    let n = 2 + src.below(10);
    let mut kids: Vec<J> = vec![];
    for _ in 0..n {
        // runs: repeat the previous child, take its successor, or draw afresh
        let next = match (kids.last().cloned(), src.below(4)) {
            (Some(p), 0) => p,
            (Some(J::Int(i)), 1) => J::Int(i + 1),
            _ => src.pick(&pool).clone(),
        };
        kids.push(next);
    }
    let me = src.pick(&[J::Int(base), J::Int(base + 1), J::Int(12), J::Int(1), J::Str("a".into()), J::Null]).clone();
    let blocked = src.pick(&[J::Int(base + 2), J::Int(base), J::Float(1.0), J::Str("b".into())]).clone();
    let as_object = src.chance(1, 4);
    let holder = if as_object { J::Obj(kids.into_iter().enumerate().map(|(i, k)| (format!("k{:02}", i), k)).collect()) } else { J::Arr(kids) };
    let doc = J::Obj(vec![("blocked".to_string(), J::Arr(vec![blocked])), ("ids".to_string(), holder), ("me".to_string(), me)]);
    let test = *src.pick(&[
        "@ == $.me", "@ != $.me", "@ != $.me && @ != $.blocked[0]", "!(@ <= $.me) || @ == 12", "@ > $.me", "@ >= $.me && @ < $.blocked[0]", "$.me == @ || @ == $.blocked[0]", "@ == 12", "@ == 1 || @ == 'a'",
        "!(@ == $.me)", "@ < 1.5", "@",
    ]);
    let text = format!("$.ids[?{}]", test);
    let q = match crate::recog::parse_ast(&text) {
        Some(q) => q,
        None => return Err(Failure::new("harness inconsistency: the scalar-run family produced a query outside the recogniser's language", json!({"query": text}))),
    };
    obs.label("scalar-runs");
    let v = doc.to_value();
    let map = node_map(&v);
    let exp: Vec<Loc> = crate::oracle::eval(&q, &doc, &crate::oracle::Quirks::strict()).iter().map(|n| n.loc()).collect();
    obs.eval(1);
    if exp.len() >= 1 {
        obs.nontrivial(&(text.as_str(), doc.text()), || json!({"query": text, "doc": doc.to_value()}));
    }
    match libx::query_with_path(&v, &map, &text) {
        Ok(nodes) => {
            let got: Vec<Option<Loc>> = nodes.iter().map(|n| n.loc.clone()).collect();
            let e: Vec<Option<Loc>> = exp.iter().cloned().map(Some).collect();
            if got != e {
                return Err(Failure::new(
                    "the filter does not keep exactly the children for which its logical expression is true (in order)",
                    json!({"query": text, "doc": doc.to_value(), "expected_kept": exp.iter().map(|l| normalized_path(l)).collect::<Vec<_>>(), "library_kept": nodes.iter().map(|n| n.path.clone()).collect::<Vec<_>>()}),
                ));
            }
            Ok(())
        }
        Err(LibErr::Err(e)) => Err(Failure::new(format!("valid query rejected: {}", e), json!({"query": text}))),
        Err(LibErr::Panic(p)) => Err(Failure::new(format!("panic: {}", p), json!({"query": text, "doc": doc.to_value()}))),
    }
}

fn random_formulas(src: &mut Src, obs: &mut Obs) -> Res {
    let k = 1 + src.below(4);
    let kinds: Vec<AtomKind> = if src.chance(1, 10) { vec![AtomKind::ExistsShared; k] } else { (0..k).map(|_| *src.pick(&KINDS)).collect() };
    let f = if src.chance(1, 8) {
        // a long flat chain: 5-40 operands over the same few atoms, `&&` and `||` mixed, some negated
        obs.label("long-chain(5-40 operands)");
        let n = 5 + src.below(36);
        let mut f = F::Var(src.below(k));
        for _ in 1..n {
            let v = if src.chance(1, 4) { F::Not(Box::new(F::Var(src.below(k)))) } else { F::Var(src.below(k)) };
            f = if src.chance(2, 3) { F::And(Box::new(f), Box::new(v)) } else { F::Or(Box::new(f), Box::new(v)) };
        }
        f
    } else {
        gen_formula(src, k, 4)
    };
    let as_object = src.chance(1, 3);
    let extra = src.chance(1, 3);
    if src.chance(1, 5) {
        return check_formula_on(&f, &[], k, &kinds, src, as_object, extra, true, obs);
    }
    check_formula(&f, &[], k, &kinds, src, as_object, extra, obs)
}

/// several filter selectors in one bracketed selection: `[?f, ?g]` is the children kept by f followed by
/// the children kept by g (a child kept by both appears twice), not the children kept by `f || g`
fn random_several_filters(src: &mut Src, obs: &mut Obs) -> Res {
    let k = 1 + src.below(3);
    let kinds: Vec<AtomKind> = if src.chance(1, 10) { vec![AtomKind::ExistsShared; k] } else { (0..k).map(|_| *src.pick(&KINDS)).collect() };
    let f = gen_formula(src, k, 2);
    let n_more = 1 + src.below(2);
    let more: Vec<F> = (0..n_more).map(|_| if src.chance(1, 5) { f.clone() } else { gen_formula(src, k, 2) }).collect();
    let as_object = src.chance(1, 3);
    check_formula(&f, &more, k, &kinds, src, as_object, false, obs)
}

/// `@` is the child under test at every nesting level, `$` is always the root
fn random_scoping(src: &mut Src, obs: &mut Obs) -> Res {
    let small = |src: &mut Src| J::Int(src.range(1, 3));
    let nitems = 1 + src.below(4);
    let items: Vec<J> = (0..nitems)
        .map(|_| {
            let nsub = src.below(4);
            let sub: Vec<J> = (0..nsub)
                .map(|_| {
                    let mut m = vec![("k".to_string(), small(src))];
                    if src.bool() {
                        m.push(("sub".to_string(), J::Arr(vec![J::Obj(vec![("k".to_string(), small(src))])])));
                    }
                    J::Obj(m)
                })
                .collect();
            let mut m = vec![("k".to_string(), small(src)), ("sub".to_string(), J::Arr(sub))];
            if src.chance(1, 4) {
                m.remove(0);
            }
            J::Obj(m)
        })
        .collect();
    let mut root = vec![("items".to_string(), J::Arr(items)), ("flag".to_string(), small(src))];
    if src.chance(1, 4) {
        root.pop();
    }
    let doc = J::Obj(root).sorted();
    let k_of = |abs: bool, prefix: Vec<SingStep>| {
        let mut steps = prefix;
        steps.push(SingStep::Name(nm("k"), true));
        Cmpable::Sing(Sing { abs, steps })
    };
    let lit = |src: &mut Src| Cmpable::Lit(Lit::Num(num_lit_int(src.range(1, 3))));
    let flag = Cmpable::Sing(Sing { abs: true, steps: vec![SingStep::Name(nm("flag"), true)] });
    let first_k = k_of(true, vec![SingStep::Name(nm("items"), true), SingStep::Index(0)]);
    let rhs = |src: &mut Src| match src.below(4) {
        0 => lit(src),
        1 => flag.clone(),
        2 => first_k.clone(),
        _ => lit(src),
    };
    let op = |src: &mut Src| *src.pick(&[Op::Eq, Op::Ne, Op::Lt, Op::Ge]);
    let inner_cmp = |src: &mut Src| Expr::Cmp(Box::new(k_of(false, vec![])), op(src), Box::new(rhs(src)));
    let sub_filter = |inner: Expr| rel(vec![nseg("sub"), Seg { desc: false, sels: vec![Sel::Filter(inner)], dot: false }]);
    let e = match src.below(6) {
        0 => Expr::Test(src.chance(1, 3), Box::new(TestE::Q(sub_filter(inner_cmp(src))))),
        1 => {
            // outer comparison and inner filter on the same name: confusing the two `@` changes the answer
            let inner = Expr::Test(false, Box::new(TestE::Q(sub_filter(inner_cmp(src)))));
            let outer = inner_cmp(src);
            if src.bool() {
                Expr::And(vec![outer, inner])
            } else {
                Expr::Or(vec![inner, outer])
            }
        }
        2 => {
            // three levels
            let lvl3 = inner_cmp(src);
            let lvl2 = Expr::And(vec![inner_cmp(src), Expr::Test(false, Box::new(TestE::Q(sub_filter(lvl3))))]);
            Expr::Test(false, Box::new(TestE::Q(sub_filter(lvl2))))
        }
        3 => Expr::Test(src.chance(1, 3), Box::new(TestE::Q(Query { abs: true, segs: vec![nseg("flag")] }))),
        4 => {
            // `$` inside a nested filter: a filter over the root's items, evaluated for every outer child
            let inner = Expr::Cmp(Box::new(k_of(false, vec![])), op(src), Box::new(rhs(src)));
            let absq = Query { abs: true, segs: vec![nseg("items"), Seg { desc: false, sels: vec![Sel::Filter(inner)], dot: false }] };
            Expr::And(vec![Expr::Test(false, Box::new(TestE::Q(absq))), inner_cmp(src)])
        }
        _ => Expr::Cmp(
            Box::new(Cmpable::F(Func { name: "count".into(), args: vec![Arg::Q(sub_filter(inner_cmp(src)))] })),
            op(src),
            Box::new(lit(src)),
        ),
    };
    let q = Query { abs: true, segs: vec![nseg("items"), Seg { desc: false, sels: vec![Sel::Filter(e)], dot: false }] };
    let text = render_plain(&q);
    let v = doc.to_value();
    let map = node_map(&v);
    let exp: Vec<Option<Loc>> = oracle::eval(&q, &doc, &Quirks::strict()).iter().map(|n| Some(n.loc())).collect();
    obs.eval(1);
    obs.label("scoping");
    obs.nontrivial(&(text.as_str(), doc.text()), || json!({"query": text, "doc": doc.to_value(), "kept": exp.len()}));
    match libx::query_with_path(&v, &map, &text) {
        Ok(n) => {
            let got: Vec<Option<Loc>> = n.iter().map(|x| x.loc.clone()).collect();
            if got != exp {
                return Err(Failure::new(
                    "nested filter: kept children differ (scoping of @ / $)",
                    json!({"query": text, "doc": doc.to_value(),
                           "expected": exp.iter().map(|l| normalized_path(l.as_ref().unwrap())).collect::<Vec<_>>(),
                           "library": n.iter().map(|x| x.path.clone()).collect::<Vec<_>>()}),
                ));
            }
            Ok(())
        }
        Err(e) => Err(Failure::new(format!("valid nested filter failed: {:?}", e), json!({"query": text, "doc": doc.to_value()}))),
    }
}

fn direct(case: &Value, obs: &mut Obs) -> Res {
    let (q, text, doc) = crate::props::c01::parse_direct(case)?;
    let v = doc.to_value();
    let map = node_map(&v);
    obs.eval(1);
    let got: Vec<Option<Loc>> = match libx::query_with_path(&v, &map, &text) {
        Ok(n) => n.iter().map(|x| x.loc.clone()).collect(),
        Err(e) => return Err(Failure::new(format!("query failed: {:?}", e), case.clone())),
    };
    let exp: Vec<Option<Loc>> = oracle::eval(&q, &doc, &Quirks::strict()).iter().map(|n| Some(n.loc())).collect();
    if got != exp {
        return Err(Failure::new("kept children differ from the reference evaluation", case.clone()));
    }
    Ok(())
}

pub fn prop() -> Prop {
    Prop {
        id: ID,
        rule: "propositional formulas over <= 4 atoms whose truth is controlled by the document (existence with falsy values, comparison, match(), root flag via $, nested filter queries, count()); \
               the document holds one child per valuation, so every query is checked on its whole truth table; all formulas with <= 3 connectives over 3 atoms exhaustively, random deeper ones, \
               minimal and redundant parentheses, children of arrays and of objects; plus random two/three-level filters where confusing the inner and outer `@` or `$` changes the answer, and two or three filter selectors in one bracketed selection (`[?f, ?g]` = kept by f, then kept by g). \
               Non-trivial: >= 2 connectives or a negation or a nested-filter atom, and neither a tautology nor a contradiction on the table. Distinct by (query text, document).",
        assumptions: vec![
            "expected result = plain Boolean evaluation of the formula per valuation (no interpreter involved), cross-checked with the reference evaluator",
            "the match() atom uses the pattern t.* on plain strings only",
        ],
        subs: vec![
            Sub { name: "formulas-exhaustive", kind: Kind::Exhaustive(exhaustive) },
            Sub { name: "random-formulas", kind: Kind::Random { f: random_formulas, quick: 80_000, thorough: 1_600_000, len: 600 } },
            Sub { name: "random-scalar-runs", kind: Kind::Random { f: random_scalar_runs, quick: 40_000, thorough: 800_000, len: 120 } },
            Sub { name: "random-several-filters", kind: Kind::Random { f: random_several_filters, quick: 48_000, thorough: 960_000, len: 300 } },
            Sub { name: "random-scoping", kind: Kind::Random { f: random_scoping, quick: 80_000, thorough: 1_600_000, len: 200 } },
        ],
        direct: Some(direct),
        selftest: Some(crate::rfc::selftest),
        fuzz: None,
        insertion_order_stage: false,
    }
}
