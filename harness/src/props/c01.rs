//! C01 — selected nodes are exactly the RFC 9535 nodelist (multiset of locations, by pointer identity)

use crate::ast::*;
use crate::engine::*;
use crate::gen::*;
use crate::json::*;
use crate::libx::{self, LibErr};
use crate::oracle::{self, Quirks};
use crate::src::Src;
use serde_json::{json, Value};

pub const ID: &str = "C01";

pub fn case_json(text: &str, doc: &J) -> Value {
    json!({"query": text, "doc": doc.to_value()})
}

fn sorted(mut v: Vec<Loc>) -> Vec<Loc> {
    v.sort();
    v
}

pub fn labels(q: &Query, obs: &mut Obs) {
    let mut desc = false;
    let mut union = false;
    let mut filter = false;
    let mut slice = false;
    let mut nested = false;
    for_each_seg(q, &mut |s, d| {
        desc |= s.desc;
        union |= s.sels.len() > 1;
        nested |= d > 1;
        for sel in &s.sels {
            match sel {
                Sel::Filter(_) => filter = true,
                Sel::Slice(..) => slice = true,
                _ => {}
            }
        }
    });
    let mut esc = false;
    for_each_str(q, &mut |s, _| esc |= s.has_escape());
    for (b, l) in [
        (desc, "descendant"),
        (union, "union"),
        (filter, "filter"),
        (slice, "slice"),
        (nested, "nested-filter"),
        (esc, "escape-in-string"),
        (q.segs.len() >= 3, "segments>=3"),
        (q.segs.len() >= 8, "segments>=8"),
        (q.segs.len() >= 32, "segments>=32"),
    ] {
        if b {
            obs.label(l);
        }
    }
}

/// the check proper for one (query, document) pair; `prog`: also evaluate the programmatic AST
pub fn check(q: &Query, text: &str, doc: &J, prog: bool, obs: &mut Obs) -> Res {
    let v = doc.to_value();
    let map = node_map(&v);
    let case = || case_json(text, doc);
    let strict = oracle::eval(q, doc, &Quirks::strict());
    obs.eval(1);
    labels(q, obs);
    let first_hits = q.segs.len() >= 2 && {
        let q1 = Query {
            abs: true,
            segs: vec![q.segs[0].clone()],
        };
        !oracle::eval(&q1, doc, &Quirks::strict()).is_empty()
    };
    if !strict.is_empty() || first_hits {
        obs.nontrivial(&(text, doc.text()), || {
            json!({"query": text, "doc": doc.to_value(), "selected": strict.iter().map(|n| normalized_path(&n.loc())).collect::<Vec<_>>()})
        });
    }
    let from_locs = |r: Result<Vec<Option<Loc>>, LibErr>| -> libx::LibRes {
        r.map(|ls| ls.into_iter().map(|l| libx::LibNode { loc: l, path: String::new(), val: Value::Null }).collect())
    };
    let mut runs = vec![("query_with_path", libx::query_with_path(&v, &map, text))];
    // the values-only entry point is a different code path for callers: same nodes expected
    obs.eval(1);
    runs.push(("query", from_locs(libx::query_vals(&v, &map, text))));
    if prog {
        obs.eval(1);
        runs.push(("js_path_process(programmatic AST)", libx::process(&v, &map, &libx::to_lib(q))));
    }
    for (what, r) in runs {
        let nodes = match r {
            Ok(n) => n,
            Err(LibErr::Err(e)) => {
                return Err(Failure::new(
                    format!("{}: valid query rejected / evaluation failed: {}", what, e),
                    case(),
                ))
            }
            Err(LibErr::Panic(p)) => return Err(Failure::new(format!("{}: panic: {}", what, p), case())),
        };
        let mut got = vec![];
        for n in &nodes {
            match &n.loc {
                Some(l) => got.push(l.clone()),
                None => {
                    return Err(Failure::new(
                        format!("{}: returned value {} (path {}) is not a node of the caller's document (copy or fabricated)", what, n.val, n.path),
                        case(),
                    ))
                }
            }
        }
        let got = sorted(got);
        match attribute(ID, &got, |k| sorted(oracle::eval(q, doc, k).iter().map(|n| n.loc()).collect())) {
            Attribution::Strict => {}
            Attribution::Known(bits) => {
                for id in finding_ids_for_bits(ID, bits) {
                    obs.known(&id, || case());
                }
            }
            Attribution::Unexplained => {
                let exp: Vec<String> = sorted(strict.iter().map(|n| n.loc()).collect()).iter().map(|l| normalized_path(l)).collect();
                let g: Vec<String> = got.iter().map(|l| normalized_path(l)).collect();
                let mut c = case();
                c["expected_locations(sorted)"] = json!(exp);
                c["library_locations(sorted)"] = json!(g);
                return Err(Failure::new(
                    format!("{}: selected nodes differ from the RFC 9535 nodelist (as multisets)", what),
                    c,
                ));
            }
        }
    }
    Ok(())
}

fn random(src: &mut Src, obs: &mut Obs, cfg: &GenCfg) -> Res {
    let doc = gen_doc(src, cfg).sorted();
    let q = gen_query(src, &doc, cfg);
    let text = render_with_blanks(src, &q, true);
    check(&q, &text, &doc, true, obs)
}

fn random_plain(src: &mut Src, obs: &mut Obs) -> Res {
    let mut cfg = GenCfg::plain();
    cfg.regex = true;
    random(src, obs, &cfg)
}

/// the plain profile with regular-expression tests as the commonest atom of a filter: which children a
/// `match` / `search` test keeps is part of what the filter selector contributes
fn random_regex_heavy(src: &mut Src, obs: &mut Obs) -> Res {
    let mut cfg = GenCfg::plain();
    cfg.regex = true;
    cfg.regex_weight = 90;
    obs.label("regex-heavy");
    random(src, obs, &cfg)
}

fn random_special(src: &mut Src, obs: &mut Obs) -> Res {
    let mut cfg = GenCfg::plain();
    cfg.special_keys = true;
    cfg.free_escapes = true;
    random(src, obs, &cfg)
}

/// explicit case {"query": text, "doc": json}
pub fn parse_direct(case: &Value) -> Result<(Query, String, J), Failure> {
    let text = case["query"].as_str().unwrap_or("").to_string();
    let doc = J::from_value(&case["doc"]);
    match crate::recog::parse_ast(&text) {
        Some(q) => Ok((q, text, doc)),
        None => Err(Failure::new("direct case: the query text is not in the recogniser's language", case.clone())),
    }
}

/// long lists of records under everyday queries (see `gen::gen_long_records`)
fn random_long_record_lists(src: &mut Src, obs: &mut Obs) -> Res {
    let (doc, text) = gen_long_records(src);
    let q = match crate::recog::parse_ast(&text) {
        Some(q) => q,
        None => return Err(Failure::new("harness inconsistency: the long-list family produced a query outside the recogniser's language", json!({"query": text}))),
    };
    obs.label("long-record-list");
    check(&q, &text, &doc, true, obs)
}

fn direct(case: &Value, obs: &mut Obs) -> Res {
    let (q, text, doc) = parse_direct(case)?;
    check(&q, &text, &doc, true, obs)
}

pub const BOX_SELECTORS: &[&str] = &[
    "'a'", "'b'", "''", "'0'", "\"a\"", "0", "1", "-1", "-2", "5", "*", ":", "1:", ":1", "::2", "::-1", "1:3", "-2:", "5:1:-2", "0:0", "?@", "?@.a", "?@==1", "?@.a==1", "?@[0]", "?!@.a",
    "?@.*", "?@>1", "?@.a||@.b",
];

pub const BOX_DOCS: &[&str] = &[
    "null", "1", "\"a\"", "[]", "{}", "[1]", "[1,2,3]", "[[1],[2,3],[]]", "[1,[1,[1]]]", "[null,false,0,\"\",[],{}]", "{\"a\":1}", "{\"a\":1,\"b\":2}", "{\"a\":{\"a\":1,\"b\":[1,2]},\"b\":{\"a\":2}}",
    "{\"\":1,\"0\":2,\"a\":[0,1]}", "[{\"a\":1},{\"a\":2,\"b\":1},{\"b\":1},1,[{\"a\":1}]]", "{\"a\":[{\"a\":[1,2]},{\"a\":[]}],\"b\":[[1,2],[3]]}", "[[[[1]]]]", "{\"a\":null,\"b\":[null]}",
    "[1,1,1,1,1,1]", "{\"a\":{\"a\":{\"a\":{\"a\":1}}}}", "[{\"a\":[1,{\"a\":1}]},[{\"a\":1},{\"a\":[0]}]]", "[0,1,2,3,4,5,6,7,8,9]",
];

/// bounded-exhaustive box shared by C01 and C02: every query of one segment (single selector or an
/// ordered pair of selectors) and every query of two single-selector segments, child or descendant,
/// over a fixed selector alphabet, on fixed documents
pub fn small_box(obs: &mut Obs, thorough: bool, mut check_one: impl FnMut(&Query, &str, &J, &mut Obs) -> Res) -> Res {
    let docs: Vec<J> = BOX_DOCS.iter().map(|d| J::from_value(&serde_json::from_str::<Value>(d).unwrap_or(Value::Null)).sorted()).collect();
    let mut queries: Vec<String> = vec!["$".to_string()];
    for d1 in ["", ".."] {
        for s1 in BOX_SELECTORS {
            queries.push(format!("${}[{}]", d1, s1));
            for s2 in BOX_SELECTORS {
                if thorough || d1.is_empty() {
                    queries.push(format!("${}[{},{}]", d1, s1, s2));
                }
                for d2 in ["", ".."] {
                    queries.push(format!("${}[{}]{}[{}]", d1, s1, d2, s2));
                }
            }
        }
    }
    let mut n = 0u64;
    for qt in &queries {
        let q = match crate::recog::parse_ast(qt) {
            Some(q) => q,
            None => return Err(Failure::new("harness inconsistency: a query of the box is not in the recogniser's language", json!({"query": qt}))),
        };
        for d in &docs {
            check_one(&q, qt, d, obs)?;
            n += 1;
        }
    }
    obs.boxes.push(json!({"box": "all queries of <= 2 segments (child/descendant) over a fixed alphabet of selectors, incl. ordered selector pairs in one segment, on fixed documents",
        "selectors": BOX_SELECTORS.len(), "documents": docs.len(), "queries": queries.len(), "query_document_pairs": n, "exhaustive": true}));
    Ok(())
}

/// flat containers at and around size thresholds (255 .. 70 000 elements, 17 .. 1025 members):
/// expected index sequences are computed arithmetically, locations by address, paths literally
pub fn large_flat(obs: &mut Obs, thorough: bool) -> Res {
    let widths: Vec<usize> = if thorough {
        vec![15, 16, 17, 31, 32, 33, 63, 64, 65, 127, 128, 129, 255, 256, 257, 511, 512, 513, 999, 1000, 1001, 1023, 1024, 1025, 4095, 4096, 4097, 32767, 32768, 65535, 65536, 65537, 70000, 131073]
    } else {
        vec![16, 17, 32, 33, 64, 65, 128, 129, 255, 256, 257, 1000, 1024, 1025, 4096, 4097, 65535, 65536, 65537, 70000]
    };
    let mut n = 0u64;
    for w in widths {
        let v = Value::Array((0..w).map(|i| json!(i)).collect());
        let map = node_map(&v);
        let all: Vec<usize> = (0..w).collect();
        let cases: Vec<(String, Vec<usize>)> = vec![
            ("$[*]".to_string(), all.clone()),
            ("$[:]".to_string(), all.clone()),
            ("$[::-1]".to_string(), all.iter().rev().copied().collect()),
            ("$..*".to_string(), all.clone()),
            ("$[?@ >= 0]".to_string(), all.clone()),
            (format!("$[?@ == {}]", w - 1), vec![w - 1]),
            (format!("$[?@ == 1 || @ > {}]", w as i64 - 4), vec![1usize].into_iter().chain(w.saturating_sub(3)..w).filter(|i| *i < w).collect::<std::collections::BTreeSet<usize>>().into_iter().collect()),
            ("$[-1]".to_string(), vec![w - 1]),
            (format!("$[{}]", w - 1), vec![w - 1]),
            (format!("$[{}]", w), vec![]),
            (format!("$[-{}]", w), vec![0]),
            (format!("$[-{}]", w + 1), vec![]),
            ("$[1::1000]".to_string(), (1..w).step_by(1000).collect()),
            (format!("$[{}:]", w - 2), vec![w - 2, w - 1]),
            ("$[:2, -2:]".to_string(), vec![0, 1, w - 2, w - 1]),
            (format!("$[?length($) == {} && @ < 3]", w), vec![0, 1, 2]),
        ];
        let mut cases = cases;
        if w <= 1025 {
            // quadratic by nature (the inner query is evaluated per element): small widths only
            cases.push((format!("$[?count($[*]) == {}]", w), all.clone()));
        }
        for (q, exp) in cases {
            obs.eval(1);
            n += 1;
            let case = || json!({"query": q, "doc": format!("[0, 1, ... {}]", w - 1)});
            obs.nontrivial(&(q.as_str(), w), || json!({"query": q, "array_elements": w, "expected_results": exp.len()}));
            let got = match libx::query_with_path(&v, &map, &q) {
                Ok(g) => g,
                Err(e) => return Err(Failure::new(format!("valid query on a wide array failed: {:?}", e), case())),
            };
            let locs: Vec<Option<Loc>> = got.iter().map(|x| x.loc.clone()).collect();
            let want: Vec<Option<Loc>> = exp.iter().map(|i| Some(vec![Step::Idx(*i)])).collect();
            if locs != want {
                let first = locs.iter().zip(&want).position(|(a, b)| a != b);
                let mut c = case();
                c["results"] = json!(locs.len());
                c["expected_results"] = json!(want.len());
                c["first_difference_at"] = json!(first);
                return Err(Failure::new("selected nodes of a wide array differ from the RFC nodelist", c));
            }
            for (x, i) in got.iter().zip(&exp) {
                if x.path != format!("$[{}]", i) {
                    let mut c = case();
                    c["reported_path"] = json!(x.path);
                    c["node_index"] = json!(i);
                    return Err(Failure::new("wide array: a reported path is not the location of its node", c));
                }
            }
        }
    }
    for m in [17usize, 33, 65, 129, 257, 1025] {
        let keys: Vec<String> = (0..m).map(|i| format!("k{:05}", i)).collect();
        let v = Value::Object(keys.iter().enumerate().map(|(i, k)| (k.clone(), json!(i))).collect());
        let map = node_map(&v);
        for (q, exp) in [
            ("$.*".to_string(), (0..m).collect::<Vec<usize>>()),
            ("$[?@ >= 0]".to_string(), (0..m).collect()),
            ("$..*".to_string(), (0..m).collect()),
            (format!("$.{}", keys[m - 1]), vec![m - 1]),
            (format!("$['{}','{}']", keys[m - 1], keys[0]), vec![m - 1, 0]),
            (format!("$[?length($) == {}]", m), (0..m).collect()),
        ] {
            obs.eval(1);
            n += 1;
            let got = match libx::query_with_path(&v, &map, &q) {
                Ok(g) => g,
                Err(e) => return Err(Failure::new(format!("valid query on a wide object failed: {:?}", e), json!({"query": q, "members": m}))),
            };
            let locs: Vec<Option<Loc>> = got.iter().map(|x| x.loc.clone()).collect();
            let want: Vec<Option<Loc>> = exp.iter().map(|i| Some(vec![Step::Key(keys[*i].clone())])).collect();
            if locs != want {
                return Err(Failure::new("selected members of a wide object differ from the RFC nodelist", json!({"query": q, "members": m, "results": locs.len(), "expected_results": want.len()})));
            }
        }
    }
    obs.boxes.push(json!({"box": "flat arrays of 16 .. 70 000 (thorough: 131 073) elements and objects of 17 .. 1025 members at size thresholds x 15-16 resp. 6 query shapes", "queries": n, "exhaustive": true}));
    Ok(())
}

/// filter comparisons between wide structures taken from the document (sizes around 16 / 32 / 64 / 256)
fn random_wide_compare(src: &mut Src, obs: &mut Obs) -> Res {
    let (reference, items) = crate::props::c04::gen_wide_family(src);
    let doc = J::Obj(vec![
        ("items".to_string(), J::Arr(items.into_iter().map(|x| J::Obj(vec![("cfg".to_string(), x)])).collect())),
        ("reference".to_string(), reference),
    ])
    .sorted();
    let op = *src.pick(&[Op::Eq, Op::Ne, Op::Le, Op::Ge]);
    let text = format!("$.items[?@.cfg {} $.reference]", op.text());
    let q = match crate::recog::parse_ast(&text) {
        Some(q) => q,
        None => return Err(Failure::new("harness inconsistency: wide-compare query not recognised", json!({"query": text}))),
    };
    obs.label("wide-structure-comparison");
    check(&q, &text, &doc, true, obs)
}

fn box_small(obs: &mut Obs, thorough: bool) -> Res {
    small_box(obs, thorough, |q, t, d, o| check(q, t, d, true, o))
}

pub fn prop() -> Prop {
    Prop {
        id: ID,
        rule: "random (document, abstract query, spelling) triples, the query guided by the document; bounded-exhaustive box of 1-2 segment queries over fixed documents. \
               Non-trivial: the RFC nodelist is non-empty, or the query has >= 2 segments and its first segment selects a node. Distinct by (query text, document text).",
        assumptions: vec![
            "reference semantics in harness/src/oracle.rs is a faithful transcription of RFC 9535 2.3-2.5 (self-tested on the RFC example tables)",
            "numbers are finite doubles or integers within +-(2^53-1)",
            "serde_json without preserve_order: member order of a Value is the sorted key order",
        ],
        subs: vec![
            Sub { name: "box-small", kind: Kind::Exhaustive(box_small) },
            Sub { name: "large-flat", kind: Kind::Exhaustive(large_flat) },
            Sub {
                name: "random-plain",
                kind: Kind::Random {
                    f: random_plain,
                    quick: 192_000, thorough: 3_840_000,
                    len: 1000,
                },
            },
            Sub { name: "random-long-record-lists", kind: Kind::Random { f: random_long_record_lists, quick: 2_400, thorough: 48_000, len: 20000 } },
            Sub { name: "random-regex-heavy", kind: Kind::Random { f: random_regex_heavy, quick: 48_000, thorough: 960_000, len: 1000 } },
            Sub { name: "random-wide-compare", kind: Kind::Random { f: random_wide_compare, quick: 8_000, thorough: 160_000, len: 900 } },
            Sub {
                name: "random-special",
                kind: Kind::Random {
                    f: random_special,
                    quick: 64_000, thorough: 1_280_000,
                    len: 1000,
                },
            },
        ],
        direct: Some(direct),
        selftest: Some(crate::rfc::selftest),
        fuzz: Some(FuzzSpec { target: "evaldiff", runs: 10000, max_len: 1000, tag: "C01", seed_corpus: None }),
        insertion_order_stage: true,
    }
}
