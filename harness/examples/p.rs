use jsonpath_rust::parser::parse_json_path;
fn main() {
    for q in std::env::args().skip(1) {
        match parse_json_path(&q) {
            Ok(a) => println!("OK  {} => {}", q, a),
            Err(e) => println!("ERR {} => {}", q, e.to_string().replace('\n', " | ")),
        }
    }
}
