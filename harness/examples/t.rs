use jsonpath_rust::parser::parse_json_path;
fn main() {
    let a: Vec<String> = std::env::args().collect();
    let k: usize = a[2].parse().unwrap();
    let q = match a[1].as_str() {
        "q" => format!("$[?{}@.a{}]", "f(".repeat(k), ")".repeat(k)),
        "cmp" => format!("$[?{}@.a==1{}]", "f(".repeat(k), ")".repeat(k)),
        "lit" => format!("$[?{}1==1{}]", "f(".repeat(k), ")".repeat(k)),
        "val" => format!("$[?{}@.a{}==1]", "length(".repeat(k), ")".repeat(k)),
        "m" => format!("$[?match({}@.a{},'a')]", "length(".repeat(k), ")".repeat(k)),
        _ => String::new(),
    };
    let t = std::time::Instant::now();
    let r = parse_json_path(&q);
    println!("{} k={} ok={} {:?}", a[1], k, r.is_ok(), t.elapsed());
}
