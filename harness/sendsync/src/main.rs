//! Compile-time part of C12: a parsed query can be shared between threads and cloned, errors can
//! cross threads.  Only a failure of *these* bounds is a C12 violation.
use jsonpath_rust::parser::errors::JsonPathError;
use jsonpath_rust::parser::model::JpQuery;

fn send_sync_clone<T: Send + Sync + Clone>() {}
fn send_sync<T: Send + Sync>() {}

fn main() {
    send_sync_clone::<JpQuery>();
    send_sync::<JsonPathError>();
    println!("ok");
}
